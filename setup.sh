#!/bin/sh
# Build the framework offline from files on disk: warm the Go build cache for the harness (incl. cgo sqlite)
# and check the tools. Every check rebuilds the harness from /repo's working tree anyway.
set -e
cd "$(dirname "$0")"
export GOFLAGS=-mod=mod GOPROXY=off GOSUMDB=off GOTOOLCHAIN=local CGO_ENABLED=1
mkdir -p .build .scratch evidence
command -v java >/dev/null
test -f /opt/veriftools/tla/tla2tools.jar
(cd harness && go build -tags verif -o ../.build/drv ./cmd/drv)
(cd /repo && GOFLAGS=-mod=readonly go build -tags verif -o /verif/.build/texel .)
echo setup ok
