----------------------------- MODULE PipelineInt -----------------------------
(***************************************************************************)
(* The counting skeleton of Pipeline.tla (C10, C11) over integers and      *)
(* finite sets only: how many features the reader handed over, how many    *)
(* wrappers per target the snapping function produced, how many of them    *)
(* sit in which channel, how many each writer got, which channels are      *)
(* closed and which goroutines are done - for EVERY number of features and *)
(* EVERY channel capacity (a send is always possible here: the behaviours  *)
(* of every capacity, including Go's unbuffered channels, are among these).*)
(*                                                                         *)
(* Pipeline.tla refines it (checked by TLC in MC_Pipeline_*.cfg, property  *)
(* RefinesInt), and Apalache proves IndInv inductive with no bound on the  *)
(* number of features, for every set of up to four targets:                *)
(*   apalache-mc check --cinit=CInit --init=Init    --inv=IndInv --length=0*)
(*   apalache-mc check --cinit=CInit --init=IndInit --inv=IndInv --length=1*)
(*   apalache-mc check --cinit=CInit --init=IndInit --inv=Complete --length=0 *)
(* so "when ProcessFeatures returns, every writer has received exactly as  *)
(* many features as the snapping function produced for its tile matrix,    *)
(* every channel is closed and empty and every goroutine is done" (the     *)
(* counting part of C10_AtReturn and C11_ReturnAfterDone) and "nothing is  *)
(* ever sent on a closed channel" hold for tables of any length - not only *)
(* for the 2-4 features TLC enumerates.  The ORDER in which features       *)
(* arrive is not in this skeleton; it is checked on Pipeline.tla by TLC.   *)
(***************************************************************************)
EXTENDS Integers, FiniteSets

CONSTANT
  \* @type: Set(Int);
  Targets

VARIABLES
  \* @type: Int;
  n,          \* features of the table
  \* @type: Set(Int);
  tg,         \* targets of the job
  \* @type: Str;
  cpc,        \* "idle" | "running" | "returned"
  \* @type: Int;
  rsent,      \* reader: features sent
  \* @type: Bool;
  rclosed,    \* reader closed its channel
  \* @type: Int;
  qB,         \* features in the reader -> snapper channel
  \* @type: Str;
  spc,        \* snapper: "recv" | "send" | "done"
  \* @type: Set(Int);
  spend,      \* targets the current feature still has to be sent for
  \* @type: Int -> Int;
  chosen,     \* wrappers produced per target so far
  \* @type: Int -> Int;
  qA,         \* wrappers per target in the snapper -> router channel
  \* @type: Bool;
  clAfter,
  \* @type: Str;
  xpc,        \* router: "recv" | "fwd" | "closing" | "done"
  \* @type: Int;
  hold,       \* target of the wrapper the router is forwarding
  \* @type: Set(Int);
  toClose,
  \* @type: Set(Int);
  clT,        \* closed target channels
  \* @type: Int -> Int;
  qT,         \* features in each target channel
  \* @type: Int -> Int;
  got,        \* features each writer received
  \* @type: Set(Int);
  wdone       \* writers that returned

vars == <<n, tg, cpc, rsent, rclosed, qB, spc, spend, chosen, qA, clAfter, xpc, hold, toClose, clT, qT, got, wdone>>

CInit == Targets \in SUBSET (1..4)
Zero == [t \in Targets |-> 0]

Init == /\ n = 0 /\ tg \in SUBSET Targets /\ cpc = "idle"
        /\ rsent = 0 /\ rclosed = FALSE /\ qB = 0 /\ spc = "recv" /\ spend = {}
        /\ chosen = Zero /\ qA = Zero /\ clAfter = FALSE /\ xpc = "recv" /\ hold = 0 /\ toClose = {} /\ clT = {}
        /\ qT = Zero /\ got = Zero /\ wdone = {}

Start == /\ cpc \in {"idle", "returned"}
         /\ n' \in Nat /\ tg' = tg /\ cpc' = "running"
         /\ rsent' = 0 /\ rclosed' = FALSE /\ qB' = 0 /\ spc' = "recv" /\ spend' = {}
         /\ chosen' = Zero /\ qA' = Zero /\ clAfter' = FALSE /\ xpc' = "recv" /\ hold' = 0 /\ toClose' = tg /\ clT' = {}
         /\ qT' = Zero /\ got' = Zero /\ wdone' = {}

ReaderSend == /\ cpc = "running" /\ ~rclosed /\ rsent < n
              /\ rsent' = rsent + 1 /\ qB' = qB + 1
              /\ UNCHANGED <<n, tg, cpc, rclosed, spc, spend, chosen, qA, clAfter, xpc, hold, toClose, clT, qT, got, wdone>>
ReaderClose == /\ cpc = "running" /\ ~rclosed /\ rsent = n
               /\ rclosed' = TRUE
               /\ UNCHANGED <<n, tg, cpc, rsent, qB, spc, spend, chosen, qA, clAfter, xpc, hold, toClose, clT, qT, got, wdone>>

SnapperRecv == /\ cpc = "running" /\ spc = "recv" /\ qB > 0
               /\ qB' = qB - 1 /\ spc' = "send"
               /\ \E S \in SUBSET tg : /\ spend' = S
                                       /\ chosen' = [t \in Targets |-> IF t \in S THEN chosen[t] + 1 ELSE chosen[t]]
               /\ UNCHANGED <<n, tg, cpc, rsent, rclosed, qA, clAfter, xpc, hold, toClose, clT, qT, got, wdone>>
SnapperSend(t) == /\ cpc = "running" /\ spc = "send" /\ t \in spend
                  /\ qA' = [qA EXCEPT ![t] = @ + 1] /\ spend' = spend \ {t}
                  /\ UNCHANGED <<n, tg, cpc, rsent, rclosed, qB, spc, chosen, clAfter, xpc, hold, toClose, clT, qT, got, wdone>>
SnapperNext == /\ cpc = "running" /\ spc = "send" /\ spend = {}
               /\ spc' = "recv"
               /\ UNCHANGED <<n, tg, cpc, rsent, rclosed, qB, spend, chosen, qA, clAfter, xpc, hold, toClose, clT, qT, got, wdone>>
SnapperClose == /\ cpc = "running" /\ spc = "recv" /\ qB = 0 /\ rclosed
                /\ clAfter' = TRUE /\ spc' = "done"
                /\ UNCHANGED <<n, tg, cpc, rsent, rclosed, qB, spend, chosen, qA, xpc, hold, toClose, clT, qT, got, wdone>>

RouterRecv(t) == /\ cpc = "running" /\ xpc = "recv" /\ qA[t] > 0
                 /\ qA' = [qA EXCEPT ![t] = @ - 1] /\ hold' = t /\ xpc' = "fwd"
                 /\ UNCHANGED <<n, tg, cpc, rsent, rclosed, qB, spc, spend, chosen, clAfter, toClose, clT, qT, got, wdone>>
RouterForward == /\ cpc = "running" /\ xpc = "fwd" /\ hold \in Targets /\ hold \notin clT
                 /\ qT' = [qT EXCEPT ![hold] = @ + 1] /\ xpc' = "recv" /\ hold' = 0
                 /\ UNCHANGED <<n, tg, cpc, rsent, rclosed, qB, spc, spend, chosen, qA, clAfter, toClose, clT, got, wdone>>
RouterSeesClosed == /\ cpc = "running" /\ xpc = "recv" /\ clAfter /\ \A t \in Targets : qA[t] = 0
                    /\ xpc' = "closing"
                    /\ UNCHANGED <<n, tg, cpc, rsent, rclosed, qB, spc, spend, chosen, qA, clAfter, hold, toClose, clT, qT, got, wdone>>
RouterCloseOne(t) == /\ cpc = "running" /\ xpc = "closing" /\ t \in toClose
                     /\ clT' = clT \cup {t} /\ toClose' = toClose \ {t}
                     /\ UNCHANGED <<n, tg, cpc, rsent, rclosed, qB, spc, spend, chosen, qA, clAfter, xpc, hold, qT, got, wdone>>
RouterJoin == /\ cpc = "running" /\ xpc = "closing" /\ toClose = {} /\ tg \subseteq wdone
              /\ xpc' = "done"
              /\ UNCHANGED <<n, tg, cpc, rsent, rclosed, qB, spc, spend, chosen, qA, clAfter, hold, toClose, clT, qT, got, wdone>>

WriterRecv(t) == /\ cpc = "running" /\ t \in tg /\ t \notin wdone /\ qT[t] > 0
                 /\ qT' = [qT EXCEPT ![t] = @ - 1] /\ got' = [got EXCEPT ![t] = @ + 1]
                 /\ UNCHANGED <<n, tg, cpc, rsent, rclosed, qB, spc, spend, chosen, qA, clAfter, xpc, hold, toClose, clT, wdone>>
WriterFinish(t) == /\ cpc = "running" /\ t \in tg /\ t \notin wdone /\ qT[t] = 0 /\ t \in clT
                   /\ wdone' = wdone \cup {t}
                   /\ UNCHANGED <<n, tg, cpc, rsent, rclosed, qB, spc, spend, chosen, qA, clAfter, xpc, hold, toClose, clT, qT, got>>

Return == /\ cpc = "running" /\ xpc = "done"
          /\ cpc' = "returned"
          /\ UNCHANGED <<n, tg, rsent, rclosed, qB, spc, spend, chosen, qA, clAfter, xpc, hold, toClose, clT, qT, got, wdone>>

Next == \/ Start \/ ReaderSend \/ ReaderClose
        \/ SnapperRecv \/ (\E t \in Targets : SnapperSend(t)) \/ SnapperNext \/ SnapperClose
        \/ (\E t \in Targets : RouterRecv(t)) \/ RouterForward \/ RouterSeesClosed \/ (\E t \in Targets : RouterCloseOne(t)) \/ RouterJoin
        \/ (\E t \in Targets : WriterRecv(t) \/ WriterFinish(t))
        \/ Return
Spec == Init /\ [][Next]_vars

(* ---------------- the inductive invariant ---------------- *)
One(b) == IF b THEN 1 ELSE 0
TypeInv ==
  /\ n \in Nat /\ tg \in SUBSET Targets /\ cpc \in {"idle", "running", "returned"}
  /\ rsent \in Nat /\ rclosed \in BOOLEAN /\ qB \in Nat /\ spc \in {"recv", "send", "done"} /\ spend \in SUBSET Targets
  /\ chosen \in [Targets -> Nat] /\ qA \in [Targets -> Nat] /\ clAfter \in BOOLEAN
  /\ xpc \in {"recv", "fwd", "closing", "done"} /\ hold \in Targets \cup {0} /\ toClose \in SUBSET Targets /\ clT \in SUBSET Targets
  /\ qT \in [Targets -> Nat] /\ got \in [Targets -> Nat] /\ wdone \in SUBSET Targets
Running ==
  /\ rsent <= n /\ qB <= rsent /\ (rclosed => rsent = n)
  /\ spend \subseteq tg /\ (spc # "send" => spend = {})
  /\ (clAfter <=> spc = "done") /\ (clAfter => rclosed /\ qB = 0)
  /\ (xpc = "fwd" <=> hold # 0) /\ (hold # 0 => hold \in tg)
  \* conservation, per target: every wrapper produced is in exactly one place
  /\ \A t \in Targets : chosen[t] = One(t \in spend) + qA[t] + One(hold = t) + qT[t] + got[t]
  /\ \A t \in Targets : chosen[t] <= rsent - qB
  /\ \A t \in Targets \ tg : chosen[t] = 0
  \* closing protocol
  /\ (xpc \in {"recv", "fwd"} => clT = {} /\ toClose = tg)
  /\ (xpc \in {"closing", "done"} => clAfter /\ (\A t \in Targets : qA[t] = 0) /\ clT = tg \ toClose /\ toClose \subseteq tg)
  /\ (xpc = "done" => toClose = {} /\ tg \subseteq wdone)
  /\ wdone \subseteq clT /\ (\A t \in wdone : qT[t] = 0)
IndInv == TypeInv /\ (cpc = "returned" => xpc = "done") /\ (cpc # "idle" => Running)
IndInit == IndInv

(* nothing is ever sent on a closed channel (Go would panic): when a send is about to happen, its channel is open *)
NoSendOnClosed == cpc = "running" => /\ (rsent < n => ~rclosed)
                                     /\ (spc = "send" => ~clAfter)
                                     /\ (xpc = "fwd" => hold \notin clT)
(* the counting part of C10_AtReturn and C11_ReturnAfterDone *)
Complete == cpc = "returned" =>
              /\ rsent = n /\ rclosed /\ qB = 0 /\ spc = "done" /\ xpc = "done" /\ clT = tg /\ tg \subseteq wdone
              /\ \A t \in Targets : qA[t] = 0 /\ qT[t] = 0 /\ got[t] = chosen[t]
=============================================================================
