SPECIFICATION Spec
INVARIANTS NoPanic AsTranscribed RegularRight
CHECK_DEADLOCK FALSE
