CONSTANTS S = 4  Stride = 16  GroupMax = 14  MaxRun = 12
SPECIFICATION Spec
INVARIANTS C05_WellFormed C05_KeepExtends
CHECK_DEADLOCK FALSE
