\* the textbook order of the two assignments: exact
CONSTANTS Alphabet = {0, 1}  MaxFind = 6  MaxCorpus = 8  Variant = "kmp"  EmitMax = 0
SPECIFICATION Spec
INVARIANTS IndexSafe TableIsBorder Shape NeverLate Exact
PROPERTIES Progress
CHECK_DEADLOCK FALSE
