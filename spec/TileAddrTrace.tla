--------------------------- MODULE TileAddrTrace ---------------------------
(* C15, code side: records of the real FromNative / ToNative / MatrixBoundingBox on every built-in set, every  *)
(* matrix without variable widths, corner / border / sampled tiles x interior quarter-fraction points, and      *)
(* points outside the matrix; judged by the addressing rules of TileAddr.tla.                                   *)
EXTENDS Integers, Sequences, FiniteSets, TLC, Json
Trace == ndJsonDeserialize("tileaddr_trace.ndjson")
VARIABLE l
Init == l \in 1..Len(Trace)
Next == UNCHANGED l
Spec == Init /\ [][Next]_l
R == Trace[l]
InsideFindsItsTile == R.kind = "inside" => R.from = R.tile
OutsideFindsNoTile == R.kind = "outside" => R.from = <<>>
CornerWhereDocumentSays == R.corner_ok
BBoxSpansCorners == R.bbox_ok
(* a tile's Z names a tile matrix by its id: the matrix used for Z = z is the one the document calls z (UTM31WGS84Quad starts at id 1) *)
MatrixIsTheOneNamed == R.docid = R.z
TileInMatrix == R.kind = "inside" => (R.tile[1] \in 0..(R.w - 1) /\ R.tile[2] \in 0..(R.h - 1))
=============================================================================
