------------------------------- MODULE Chains -------------------------------
(***************************************************************************)
(* Generator of closed label sequences (C06, C05, F5 key).                  *)
(* The spike removal and ring splitting of snap.go only compare vertices   *)
(* for equality, so their behaviour is a function of the sequence of       *)
(* LABELS of the routed ring.  Every reachable state of this module is one *)
(* such sequence in canonical form (labels appear in order of first use:   *)
(* symmetry reduction by construction), no two equal neighbours; the       *)
(* harness realises it (a) as an argument of kmpDeduplicate and (b) as a   *)
(* polygon whose vertices are pixel centres in convex position, so that    *)
(* the routed chain is exactly the sequence (SnapTrace re-derives that).   *)
(***************************************************************************)
EXTENDS Integers, Sequences, FiniteSets, TLC, Json
CONSTANTS Labels,   \* number of labels
          MaxLen
VARIABLE seq
MaxUsed(s) == IF s = <<>> THEN 0 ELSE CHOOSE m \in 1..Labels : (\E i \in 1..Len(s) : s[i] = m) /\ \A i \in 1..Len(s) : s[i] <= m
Init == seq = <<1>>
Next == /\ Len(seq) < MaxLen
        /\ \E x \in 1..Labels : /\ x # seq[Len(seq)]
                                /\ x <= MaxUsed(seq) + 1
                                /\ seq' = Append(seq, x)
Spec == Init /\ [][Next]_seq
Closed == Len(seq) >= 2 /\ seq[1] # seq[Len(seq)]
EmitVec == Closed => PrintT(<<"VEC", ToJson([seq |-> seq])>>)
=============================================================================
