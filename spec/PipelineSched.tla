---------------------------- MODULE PipelineSched ----------------------------
(***************************************************************************)
(* Schedules for the replay direction of C10 / C11: behaviours of          *)
(* Pipeline.tla (unbuffered channels) with a history of the VISIBLE steps  *)
(* -- the points at which the harness can hold the real goroutines:        *)
(*   S i   the source is about to send feature i                           *)
(*   SC    the source is about to close its channel                        *)
(*   P i   the polygon function is called for feature i                    *)
(*   R t   target t receives its next feature                              *)
(*   D t   target t sees its channel closed and finishes                   *)
(*   Ret   ProcessFeatures returns                                         *)
(* TLC (simulation mode) produces behaviours; the harness releases the     *)
(* real goroutines in exactly that order and records the usual event log,  *)
(* which PipelineTrace.tla then validates.  Every feature goes to at most  *)
(* one target, so that the order in which the snapper emits the wrappers   *)
(* of one feature (Go map iteration, not controllable) plays no role and   *)
(* every schedule produced here can be followed by a correct pipeline: a   *)
(* run that cannot follow it is stuck (a Hang event).                      *)
(***************************************************************************)
EXTENDS Pipeline, TLC, Json
VARIABLE hist
svars == <<vars, hist>>
SetToSeq_(S) == LET RECURSIVE F(_) F(T) == IF T = {} THEN <<>> ELSE LET x == CHOOSE y \in T : \A z \in T : y <= z IN <<x>> \o F(T \ {x}) IN F(S)
SInit == Init /\ hist = <<>>
Vis(label) == hist' = Append(hist, label)
Sil == hist' = hist
SStart == /\ cpc = "idle" /\ table < NT
          /\ StartRun
          /\ \A i \in 1..N : Cardinality(out'[i]) <= 1
          /\ hist' = <<[a |-> "Start", n |-> n', tg |-> SetToSeq_(tg), out |-> [i \in 1..N |-> SetToSeq_(out'[i])]]>>
SNext == \/ SStart
         \/ (ReaderSend /\ Vis([a |-> "S", x |-> rnext]))
         \/ (ReaderClose /\ Vis([a |-> "SC", x |-> 0]))
         \/ (SnapperRecv /\ Vis([a |-> "P", x |-> Head(qBefore)]))
         \/ (\E t \in Targets : WriterRecv(t) /\ Vis([a |-> "R", x |-> t]))
         \/ (\E t \in Targets : WriterFinish(t) /\ Vis([a |-> "D", x |-> t]))
         \/ (Return /\ Vis([a |-> "Ret", x |-> 0]))
         \/ ((ReaderUnblock \/ (\E t \in Targets : SnapperSend(t)) \/ SnapperUnblock \/ SnapperNext \/ SnapperClose
              \/ RouterRecv \/ RouterForward \/ RouterUnblock \/ RouterSeesClosed \/ (\E t \in Targets : RouterCloseOne(t)) \/ RouterJoin) /\ Sil)
SSpec == SInit /\ [][SNext]_svars
Emit == cpc = "finished" => PrintT(<<"VEC", ToJson([hist |-> hist])>>)
=============================================================================
