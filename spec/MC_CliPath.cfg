\* all safe target paths of up to 6 characters over {a, b, ., /} x two ids
CONSTANTS MaxLen = 6
SPECIFICATION PathSpec
INVARIANTS SuffixInserted EmitVec
CHECK_DEADLOCK FALSE
