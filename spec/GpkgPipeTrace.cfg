SPECIFICATION Spec
INVARIANTS Finished NoDataRace EveryRowArrived FaultNotSilent OwnGeometryOnly SourceOrder
CHECK_DEADLOCK FALSE
