SPECIFICATION Spec
INVARIANTS Finished NoDataRace EveryRowArrived OwnGeometryOnly SourceOrder
CHECK_DEADLOCK FALSE
