\* every span up to 300 units x depth up to 5 x every level x every pixel index
CONSTANTS MaxSpan = 300  MaxD = 5
SPECIFICATION Spec
INVARIANTS CentreWithinDeviation RoundIsLevelLocal RoundIsExact AcceptedBand AddrIsPixel LevelFormula
CHECK_DEADLOCK FALSE
