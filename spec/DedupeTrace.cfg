SPECIFICATION Spec
INVARIANTS NoPanic AsTranscribed NeverLonger OnlyLabelsOfInput InventsOnlyBeyondTwice
CHECK_DEADLOCK FALSE
