----------------------------- MODULE RouteTrace -----------------------------
(***************************************************************************)
(* Trace validation for C02 (first sentence): each record is one call of   *)
(* the real PointIndex.SnapClosestPoints on a synthetic grid, projected to *)
(* window pixels / lattice units; the route it must return is computed     *)
(* here by Grid!Route.  Records are independent: one initial state each.   *)
(***************************************************************************)
EXTENDS Grid, Json

Trace == ndJsonDeserialize("route_trace.ndjson")
SetOf(seq) == {seq[i] : i \in DOMAIN seq}

VARIABLE l
Init == l \in 1..Len(Trace)
Next == UNCHANGED l
Spec == Init /\ [][Next]_l
Rec == Trace[l]

NoPanic       == Rec.panic = ""
CentresExact  == Rec.exact                         \* every returned coordinate is a pixel centre of the level
RouteIsExact  == Rec.panic = "" => Rec.got = Route(Rec.a, Rec.b, SetOf(Rec.hot))
=============================================================================
