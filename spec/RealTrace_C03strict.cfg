CONSTANTS S = 4  Stride = 16  GroupMax = 14  MaxRun = 12
SPECIFICATION Spec
INVARIANTS EmitStats DeviationReported C03_WithinDeviation C03_CentreOfAnInputPixel
CHECK_DEADLOCK FALSE
