CONSTANTS Size = 4  MaxOuters = 2  MaxInners = 2
SPECIFICATION Spec
INVARIANTS RegularRight Conserves Emit
CHECK_DEADLOCK FALSE
