CONSTANTS Size = 4  MaxOuters = 2  MaxInners = 2  CatSel = {1, 2, 3, 4, 5, 6, 7, 8}
SPECIFICATION Spec
INVARIANTS RegularRight Conserves Emit
CHECK_DEADLOCK FALSE
