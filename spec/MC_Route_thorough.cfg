\* thorough: W=3, S=4: 28561 segments x 5 hot sets = 142805 vectors
CONSTANTS S = 4  W = 3  Modes = {"all", "ends", "mixA", "mixB", "none"}
SPECIFICATION Spec
INVARIANTS EmitVec EndsFirstLast NoDuplicates
CHECK_DEADLOCK FALSE
