\* thorough: x and y over all words with <= 2 bits of 0..31: 279 841 initial states
SPECIFICATION SpecDeep
INVARIANTS KeyIsInterleave RoundTrip ParentIsShift ChildrenOK OperatorForm StageLinear EmitVec
CHECK_DEADLOCK FALSE
