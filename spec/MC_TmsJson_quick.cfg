\* every document one mutation deep
CONSTANTS Depth = 1
SPECIFICATION Spec
INVARIANTS EmitVec
PROPERTIES Monotone
CHECK_DEADLOCK FALSE
