------------------------------ MODULE CodeSnap ------------------------------
(***************************************************************************)
(* The whole of snap.addPointsAndSnap AS THE CODE DOES IT, for one record  *)
(* of SnapTrace: the routed boundary (Grid!Route, as in SnapTrace), the    *)
(* point index's hit bookkeeping (checkPointHits), cleanupNewRing, the     *)
(* spike removal (Dedupe.tla), the ring splitting (SplitRing.tla), the     *)
(* dropping of a level whose shell vanished, the assembly (Assemble.tla),  *)
(* the reverse-winding flag and the points and lines - composed from the   *)
(* transcriptions of the single stages.  CodeResult(z) is what the pinned  *)
(* code returns for tile matrix z; AsTranscribedSnap demands that the      *)
(* recorded call returned exactly that, polygon for polygon, ring for ring,*)
(* vertex for vertex.  Every change of behaviour anywhere in the post-     *)
(* processing shows here, on valid and invalid polygons alike; what the    *)
(* change means for the listed properties is decided by their invariants.  *)
(***************************************************************************)
EXTENDS SnapTrace

D == INSTANCE Dedupe WITH Labels <- {}, MaxLen <- 0, ring <- <<>>
SR == INSTANCE SplitRing WITH Labels <- {}, MaxLen <- 0, ring <- <<>>, hm <- {}, phase <- ""
A == INSTANCE Assemble WITH Size <- 0, MaxOuters <- 0, MaxInners <- 0, CatSel <- {}, os <- <<>>, is <- <<>>

(* pointindex.go:216-236 + 507-525: a centre is "hit multiple" by a ring if the routes of the ring's segments, each without its
   first element, contain it twice or more *)
RECURSIVE HitCount(_, _, _, _, _)
HitCount(ring, hot, sp, i, c) ==
  IF i > Len(ring) THEN 0
  ELSE LET rt == RouteSp(ring[i], Nxt(ring, i), hot, sp)
       IN  Cardinality({j \in 2..Len(rt) : rt[j] = c}) + HitCount(ring, hot, sp, i + 1, c)
HitMultiple(ring, hot, sp) == {CentreSp(c, sp) : c \in {x \in hot : HitCount(ring, hot, sp, 1, x) >= 2}}

(* snap.go:395-420 cleanupNewRing, 452-547 splitRing: one routed ring -> outers, inners, points and lines *)
ClassifyPts(loops, isOuter) ==
  LET big    == SelectSeq(loops, LAMBDA L : Len(L) >= 3)
      small  == SelectSeq(loops, LAMBDA L : Len(L) < 3)
      asOut  == SelectSeq(big, LAMBDA L : IF isOuter THEN Orientation(L) >= 0 ELSE Orientation(L) > 0)
      asIn   == SelectSeq(big, LAMBDA L : IF isOuter THEN Orientation(L) < 0 ELSE Orientation(L) <= 0)
      RevAll(ss) == [i \in 1..Len(ss) |-> Reverse(ss[i])]
  IN  IF isOuter /\ asOut = <<>> /\ asIn # <<>> THEN [o |-> RevAll(asIn), i |-> <<>>, p |-> small, bad |-> FALSE]
      ELSE IF ~isOuter /\ asIn = <<>> /\ asOut # <<>> THEN [o |-> <<>>, i |-> RevAll(asOut), p |-> small, bad |-> FALSE]
      ELSE [o |-> asOut, i |-> asIn, p |-> small, bad |-> FALSE]
Nothing == [o |-> <<>>, i |-> <<>>, p |-> <<>>, bad |-> FALSE]
RingResult(ring, isOuter, hot, sp) ==
  LET chain == ChainPts(ring, hot, sp)
  IN  IF Len(chain) = 0 THEN Nothing
      ELSE IF Len(chain) < 3 THEN [Nothing EXCEPT !.p = <<chain>>]
      ELSE LET d == D!CodeDedupe(chain)
           IN  IF d.panic # "" THEN [Nothing EXCEPT !.bad = TRUE]
               ELSE IF Len(d.out) < 3 THEN [Nothing EXCEPT !.p = <<d.out>>]
               ELSE LET c == SR!CodeLoops(d.out, HitMultiple(ring, hot, sp))
                    IN  IF c.panic # "" THEN [Nothing EXCEPT !.bad = TRUE] ELSE ClassifyPts(c.loops, isOuter)

(* snap.go:96-147: the rings in order; a level whose shell leaves nothing is dropped and sees no further ring *)
RECURSIVE Rings(_, _, _, _, _, _)
Rings(P, r, hot, sp, keep, st) ==
  IF r > Len(P) \/ ~st.alive THEN st
  ELSE LET res == RingResult(NormRing(P[r], r > 1), r = 1, hot, sp)
       IN  IF res.bad THEN [st EXCEPT !.bad = TRUE, !.alive = FALSE]
           ELSE IF r = 1 /\ res.o = <<>> /\ (~keep \/ res.p = <<>>) THEN [st EXCEPT !.alive = FALSE]
           ELSE Rings(P, r + 1, hot, sp, keep,
                      [st EXCEPT !.o = @ \o res.o, !.i = @ \o res.i, !.p = IF keep THEN @ \o res.p ELSE @])
RevPolys(ps) == [p \in 1..Len(ps) |-> [r \in 1..Len(ps[p]) |-> Reverse(ps[p][r])]]
(* snap.go:149-166: assembly, reverse flag, points and lines as one-ring polygons at the end *)
CodeLevel(P, k, keep, rev) ==
  LET sp == Span(k)
      hot == HotAt(P, sp)
      st == Rings(P, 1, hot, sp, keep, [alive |-> TRUE, bad |-> FALSE, o |-> <<>>, i |-> <<>>, p |-> <<>>])
      asm == IF st.alive THEN A!CodeAssembly(st.o, st.i) ELSE <<>>
      polys == IF rev THEN RevPolys(asm) ELSE asm
      pls == IF st.alive THEN [j \in 1..Len(st.p) |-> <<st.p[j]>>] ELSE <<>>
  IN  [bad |-> st.bad, polys |-> polys \o pls]

(* the recorded call returned what the composed transcription computes *)
AsTranscribedSnap ==
  (Ok /\ Len(R.poly) >= 1) =>
    \A e \in SeqToSet(R.lv) :
      LET c == CodeLevel(R.poly, e.k, R.keep, R.rev)
      IN  c.bad \/ (PolysAt(R, e.z) = c.polys /\ (HasRes(R, e.z) <=> Len(c.polys) > 0))
=============================================================================
