------------------------------ MODULE Assemble ------------------------------
(***************************************************************************)
(* The assembly stage of snap.addPointsAndSnap as the CODE does it         *)
(* (snap.go: dedupeInnersOuters, ringsAreEqual, outersToPolygons,          *)
(* matchInnersToPolygons, sortPolyIdxsByOuterAreaDesc, ringContains),      *)
(* transcribed statement by statement, next to the reference assembly of   *)
(* Snap.tla ("cancel a shell against an identical hole, attach every hole  *)
(* to the smallest shell that contains it").                               *)
(*                                                                         *)
(* Input: the outer and inner loops splitRing has cut out of the routed    *)
(* rings of one level (sequences of lattice points, outers counter-        *)
(* clockwise, inners clockwise).  TLC enumerates every ordered choice of   *)
(* up to MaxOuters / MaxInners loops from a catalogue of nested, touching  *)
(* and disjoint boxes and establishes                                      *)
(*   - where the code's result covers exactly the locations the loops      *)
(*     enclose and keeps every hole inside its shell (Regular inputs:      *)
(*     what a boundary visiting every centre at most twice can produce),   *)
(*   - and reproduces finding F13 at the level of the design: for loops    *)
(*     that wind twice around the same area the code attaches a hole to a  *)
(*     shell smaller than itself / leaves overlapping filled shells.       *)
(* Every enumerated input is replayed into the real functions (driver      *)
(* assemble-replay) and the real result compared with CodeAssembly.        *)
(***************************************************************************)
EXTENDS Integers, Sequences, FiniteSets, TLC, Json, RingOps

At(s, i) == s[i + 1]
IndexOf0(s, v) == IF \E i \in 1..Len(s) : s[i] = v THEN (CHOOSE i \in 1..Len(s) : s[i] = v /\ \A j \in 1..(i - 1) : s[j] # v) - 1 ELSE -1

(* ---------------- snap.go:266 ringsAreEqual ---------------- *)
RingsAreEqual(ri, rj, iIsOuter, jIsOuter) ==
  /\ Len(ri) = Len(rj)
  /\ LET n == Len(ri)
         idx == IndexOf0(rj, ri[1])
         diff == iIsOuter /\ ~jIsOuter
     IN  /\ idx >= 0
         /\ \A k \in 0..(n - 1) :
              IF diff THEN At(ri, k) = At(rj, (idx + n - k) % n) ELSE At(ri, k) = At(rj, (idx + k) % n)

(* ---------------- snap.go:189 dedupeInnersOuters ---------------- *)
(* state of the outer loop: [i, processed, deleted]; rings are addressed by their index in outers \o inners (0-based) *)
RingAt2(os, is, i) == IF i < Len(os) THEN At(os, i) ELSE At(is, i - Len(os))
IsOuterIdx(os, i) == i < Len(os)
EqualGroup(os, is, i, processed) ==          \* i itself followed by the later unprocessed rings equal to it, ascending
  LET all == Len(os) + Len(is)
      js == {j \in (i + 1)..(all - 1) : j \notin processed /\ RingsAreEqual(RingAt2(os, is, i), RingAt2(os, is, j), IsOuterIdx(os, i), IsOuterIdx(os, j))}
  IN  {i} \cup js
RECURSIVE DedupeLoop(_, _, _, _, _)
DedupeLoop(os, is, i, processed, deleted) ==
  IF i >= Len(os) + Len(is) THEN deleted
  ELSE IF i \in processed THEN DedupeLoop(os, is, i + 1, processed, deleted)
  ELSE LET g == EqualGroup(os, is, i, processed)
       IN  IF Cardinality(g) <= 1 THEN DedupeLoop(os, is, i + 1, processed, deleted)
           ELSE LET gO == {x \in g : IsOuterIdx(os, x)}
                    gI == g \ gO
                    nO == Cardinality(gO)
                    nI == Cardinality(gI)
                    delO == IF nO = nI THEN nO - 1 ELSE (IF nO < nI THEN nO ELSE nI)      \* "delete all but one" / "delete the surplus"
                    delI == IF nO = nI THEN nI - 1 ELSE (IF nO < nI THEN nO ELSE nI)
                    \* the first delO outers and the first delI inners of the group, in ascending index order
                    FirstN(S, n) == {x \in S : Cardinality({y \in S : y < x}) < n}
                IN  DedupeLoop(os, is, i + 1, processed \cup g, deleted \cup FirstN(gO, delO) \cup FirstN(gI, delI))
Dedupe(os, is) ==
  LET del == DedupeLoop(os, is, 0, {}, {})
      keepO == SelectSeq([k \in 1..Len(os) |-> k - 1], LAMBDA k : k \notin del)
      keepI == SelectSeq([k \in 1..Len(is) |-> k - 1 + Len(os)], LAMBDA k : k \notin del)
  IN  <<[k \in 1..Len(keepO) |-> RingAt2(os, is, keepO[k])], [k \in 1..Len(keepI) |-> RingAt2(os, is, keepI[k])]>>

(* ---------------- snap.go:289 matchInnersToPolygons ---------------- *)
RingContains(ring, p) == PointInRing(ring, p) >= 0             \* ringContains: boundary counts as inside
Area2(r) == Abs(SignedArea2(r))                            \* geomhelp.Shoelace (absolute)
(* the polygon index an inner ring is attached to; -1: no polygon contains any of its vertices (turned into an outer) *)
(* cnt: function polygon index -> vertices of the inner contained so far; order: insertion order of the ordered map *)
RECURSIVE MatchVertex(_, _, _, _, _)
MatchVertex(shells, inner, v, cnt, order) ==
  IF v > Len(inner)
  THEN IF order = <<>> THEN -1
       ELSE \* several candidates: the smallest outer area among the polygons that contain some vertex (LastMatch over the list
            \* sorted by area descending; equal areas: the catalogue has none among distinct shapes, duplicates are interchangeable)
            CHOOSE x \in SeqToSet(order) : \A y \in SeqToSet(order) :
                 Area2(At(shells, x)) < Area2(At(shells, y)) \/ (Area2(At(shells, x)) = Area2(At(shells, y)) /\ x >= y)
  ELSE LET hit == {x \in 0..(Len(shells) - 1) : RingContains(At(shells, x), inner[v])}
           cnt2 == [x \in 0..(Len(shells) - 1) |-> cnt[x] + (IF x \in hit THEN 1 ELSE 0)]
           newKeys == SelectSeq([k \in 1..Len(shells) |-> k - 1], LAMBDA x : x \in hit /\ x \notin SeqToSet(order))
           order2 == order \o newKeys
           mx == IF order2 = <<>> THEN 0 ELSE CHOOSE m \in {cnt2[x] : x \in SeqToSet(order2)} : \A x \in SeqToSet(order2) : cnt2[x] <= m
           winners == {x \in SeqToSet(order2) : cnt2[x] = mx}
       IN  IF order2 # <<>> /\ Cardinality(winners) = 1 THEN CHOOSE x \in winners : TRUE      \* a unique best candidate: attach now
           ELSE MatchVertex(shells, inner, v + 1, cnt2, order2)
MatchOf(shells, inner) == MatchVertex(shells, inner, 1, [x \in 0..(Len(shells) - 1) |-> 0], <<>>)
CodeMatch(os, is) ==
  LET m == [k \in 1..Len(is) |-> MatchOf(os, is[k])]
      holesOf(x) == LET ks == SelectSeq([k \in 1..Len(is) |-> k], LAMBDA k : m[k] = x) IN [j \in 1..Len(ks) |-> is[ks[j]]]
      orphanIdx == SelectSeq([k \in 1..Len(is) |-> k], LAMBDA k : m[k] = -1)
  IN  [x \in 1..Len(os) |-> <<os[x]>> \o holesOf(x - 1)] \o [j \in 1..Len(orphanIdx) |-> <<Reverse(is[orphanIdx[j]])>>]
CodeAssembly(os, is) == LET d == Dedupe(os, is) IN IF d[2] = <<>> THEN [x \in 1..Len(d[1]) |-> <<d[1][x]>>] ELSE CodeMatch(d[1], d[2])

(* ---------------- the reference (Snap.tla) ---------------- *)
RECURSIVE Cancel(_, _)
Cancel(os, is) ==
  IF \E x \in 1..Len(os), y \in 1..Len(is) : CyclicRevEq(os[x], is[y])
  THEN LET pr == CHOOSE pr \in (1..Len(os)) \X (1..Len(is)) : CyclicRevEq(os[pr[1]], is[pr[2]])
       IN  Cancel(SubSeq(os, 1, pr[1] - 1) \o SubSeq(os, pr[1] + 1, Len(os)), SubSeq(is, 1, pr[2] - 1) \o SubSeq(is, pr[2] + 1, Len(is)))
  ELSE <<os, is>>
ContainsRing(shell, hole) == \A i \in 1..Len(hole) : PointInRing(shell, hole[i]) >= 0

(* ---------------- what is asked of an assembly ---------------- *)
(* sample locations: the centres of the unit cells of the lattice (never on a loop) *)
CONSTANTS Size, MaxOuters, MaxInners, CatSel        \* CatSel: which catalogue entries the enumeration draws from
(* two locations per unit cell, at (x + 1/4, y + 1/2) and (x + 3/4, y + 1/2): never on an axis-parallel or 45-degree edge of
   the catalogue, and one on either side of a diagonal that splits the cell (coordinates times four) *)
Samples == {<<4 * x + 1, 4 * y + 2>> : x, y \in 0..(Size - 1)} \cup {<<4 * x + 3, 4 * y + 2>> : x, y \in 0..(Size - 1)}
Dbl(r) == [i \in 1..Len(r) |-> <<4 * r[i][1], 4 * r[i][2]>>]
In2(ring, s) == PointInRing(Dbl(ring), s) > 0
Inside(ring) == {s \in Samples : In2(ring, s)}
Winding(os, is, s) == Cardinality({x \in 1..Len(os) : In2(os[x], s)}) - Cardinality({y \in 1..Len(is) : In2(is[y], s)})
CoveredBy(polys, s) == \E p \in 1..Len(polys) : In2(polys[p][1], s) /\ \A h \in 2..Len(polys[p]) : ~In2(polys[p][h], s)
HolesInShells(polys) == \A p \in 1..Len(polys) : \A h \in 2..Len(polys[p]) : ContainsRing(polys[p][1], polys[p][h])
CoverageRight(os, is, polys) == \A s \in Samples : CoveredBy(polys, s) <=> (Winding(os, is, s) >= 1)
(* inputs a boundary that visits no centre more than twice can produce: nowhere enclosed twice, nowhere enclosed negatively,
   no lattice point on more than two loops, no two loops crossing or partly overlapping *)
Visits(os, is, p) == Cardinality({x \in 1..Len(os) : p \in SeqToSet(os[x])}) + Cardinality({y \in 1..Len(is) : p \in SeqToSet(is[y])})
Regular(os, is) == /\ \A s \in Samples : Winding(os, is, s) \in {0, 1}
                   /\ \A x, y \in 0..Size : Visits(os, is, <<x, y>>) <= 2
                   /\ NoCrossing(<<os \o is>>)                     \* C01: snap rounding never makes loops cross
                   /\ LET all == os \o is                          \* ... nor cross through a common vertex: any two loops are
                      IN  \A x, y \in 1..Len(all) :                \* nested or enclose disjoint areas
                            LET a == Inside(all[x])
                                b == Inside(all[y])
                            IN  a \cap b = {} \/ a \subseteq b \/ b \subseteq a

(* ---------------- the catalogue and the enumeration ---------------- *)
Box(x0, y0, x1, y1) == <<<<x0, y0>>, <<x1, y0>>, <<x1, y1>>, <<x0, y1>>>>       \* counter-clockwise
Catalogue == << Box(0, 0, 4, 4),        \* 1  the whole window                       area 16
                Box(0, 0, 2, 2),        \* 2  shares the corner (0,0) with 1          4
                Box(1, 1, 3, 3),        \* 3  strictly inside 1, shares (1,1)-(2,2).. with nothing on 1   4  (equal area with 2: disjoint interiors overlap)
                Box(2, 1, 4, 4),        \* 4  shares the corner (4,4) with 1, touches 2 at no vertex      6
                <<<<0, 0>>, <<4, 0>>, <<0, 4>>>>,     \* 5  triangle under a descending hypotenuse (ringContains on a sloped edge)   8
                Box(1, 1, 2, 2),        \* 6  inside 2 and 3, shares (1,1) with 3 and (2,2) with 2        1
                Box(0, 0, 3, 3),        \* 7  between 1 and 2                           9
                <<<<0, 0>>, <<4, 0>>, <<4, 4>>>> >>   \* 8  triangle under an ascending hypotenuse                                     8
Rot(r, k) == [i \in 1..Len(r) |-> r[((i + k - 1) % Len(r)) + 1]]
Outers == {Catalogue[c] : c \in CatSel}
Inners == {Reverse(Rot(Catalogue[c], k)) : c \in CatSel, k \in {0, 2}}      \* clockwise, two starting vertices
SeqsOf(S, n) == UNION {[1..k -> S] : k \in 0..n}

VARIABLES os, is
(* the inputs are built up ring by ring (outers first), so that TLC's workers share the enumeration; every reachable state
   is one input *)
Init == os = <<>> /\ is = <<>>
Next == \/ /\ is = <<>> /\ Len(os) < MaxOuters /\ \E r \in Outers : os' = Append(os, r) /\ UNCHANGED is
        \/ /\ Len(is) < MaxInners /\ \E r \in Inners : is' = Append(is, r) /\ UNCHANGED os
Spec == Init /\ [][Next]_<<os, is>>

Result == CodeAssembly(os, is)
(* on regular inputs the code is right *)
RegularRight == Regular(os, is) => (HolesInShells(Result) /\ CoverageRight(os, is, Result))
(* never loses or invents a ring *)
Conserves == LET d == Dedupe(os, is) IN
               Cardinality(UNION {{<<p, r>> : r \in 1..Len(Result[p])} : p \in 1..Len(Result)}) = Len(d[1]) + Len(d[2])
(* F13 at design level: loops that wind twice around some location but are otherwise tame (nowhere negative, no crossings) *)
DoubleWound(o, i) == /\ \A s \in Samples : Winding(o, i, s) \in {0, 1, 2}
                     /\ \E s \in Samples : Winding(o, i, s) = 2
                     /\ NoCrossing(<<o \o i>>)
(* statistics of what goes wrong outside the regular inputs *)
Emit == PrintT(<<"VEC", ToJson([os |-> os, is |-> is, polys |-> Result, regular |-> Regular(os, is), twice |-> DoubleWound(os, is),
                                 holes_ok |-> HolesInShells(Result), cover_ok |-> CoverageRight(os, is, Result)])>>)
=============================================================================
