\* W=2, S=2: 25 lattice points, all ordered pairs of segments x 9 extra hot pixels (pairs that cross or are collinear are skipped)
CONSTANTS S = 2  W = 2
SPECIFICATION Spec
INVARIANTS RoutedDoNotCross
CHECK_DEADLOCK FALSE
