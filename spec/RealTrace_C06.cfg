CONSTANTS S = 4  Stride = 16  GroupMax = 14  MaxRun = 12
SPECIFICATION Spec
INVARIANTS C06_NoPanic C06_Time
CHECK_DEADLOCK FALSE
