----------------------------- MODULE MC_CliPath -----------------------------
EXTENDS CliPath, Json
(* path vectors for the replay direction: every safe path over a small alphabet *)
Alphabet == {"a", "b", ".", "/"}
PathsUpTo(n) == UNION {[1..k -> Alphabet] : k \in 1..n}
CONSTANT MaxLen
VARIABLES pp, pid
PathInit == pp \in {q \in PathsUpTo(MaxLen) : SafePath(q)} /\ pid \in {5, 14}
PathNext == UNCHANGED <<pp, pid>>
PathSpec == PathInit /\ [][PathNext]_<<pp, pid>>
RECURSIVE Join(_)
Join(s) == IF s = <<>> THEN "" ELSE s[1] \o Join(Tail(s))
SuffixInserted == LET t == TargetPath(pp, pid)
                  IN  /\ DirOf(t) = DirOf(pp)                                   \* the directory is kept
                      /\ ExtOf(FileOf(t)) = ExtOf(FileOf(pp))                  \* the extension is kept
                      /\ Len(t) = Len(pp) + 1 + Len(Digits(pid))
EmitVec == PrintT(<<"VEC", ToJson([path |-> Join(pp), id |-> pid, target |-> Join(TargetPath(pp, pid))])>>)
=============================================================================
