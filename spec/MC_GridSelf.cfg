\* W=2, S=4: 81 x 81 segments, hot = all 9 pixels: oracle against brute force on a refined lattice
CONSTANTS S = 4  W = 2  Modes = {"all", "ends", "mixA"}
SPECIFICATION Spec
INVARIANTS MeetsIsExact OrderIsTravel EndsFirstLast NoDuplicates SubsetFilter
CHECK_DEADLOCK FALSE
