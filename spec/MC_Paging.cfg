\* all page sizes 1..4 x all counts 0..13 (covers 0, exact multiples, one more than a multiple up to 3P+1) x all empty-geometry subsets up to 6 features
CONSTANTS MaxCount = 13  MaxP = 4
SPECIFICATION Spec
INVARIANTS Conserved BufferBelowP PagesFull Complete CommittedOK IntInvHolds
PROPERTIES Terminates RefinesInt
CONSTRAINT SmallEmpty
