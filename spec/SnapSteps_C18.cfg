CONSTANTS S = 4  Stride = 16  GroupMax = 14  MaxRun = 12
SPECIFICATION Spec
INVARIANTS EmitStats ProjectionExact StepsRecorded S3_CleanupContract S4_DropRule S5_AssembleContract S6_ReturnIsAssembly
CHECK_DEADLOCK FALSE
