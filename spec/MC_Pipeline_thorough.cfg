\* thorough: 3 features x 3 targets, unbuffered, 1 table: all 512 outcome maps x all interleavings
CONSTANTS N = 3  Targets = {1, 2, 3}  Cap = 0  NT = 1  NChoices = {0, 1, 3}  TgChoices = {{1, 2, 3}, {2}}
SPECIFICATION Spec
INVARIANTS TypeOK C10_Prefix C10_AtReturn C11_ReturnAfterDone C11_WriterTable NoSendOnClosed IntInvHolds
PROPERTIES C11_TableStable C11_Terminates RefinesInt
