-------------------------- MODULE BorderFineTrace --------------------------
(* C09 "by any amount", below the quarter-pixel lattice of MC_Border and on the built-in grids whose extent does not divide    *)
(* evenly into pixels: one vertex of a triangle lies d >= 2 units of 1e-10 (up to 1/16 pixel) outside one of the four borders  *)
(* of the extent (left / bottom: below the minimum; right / top: beyond the maximum, which is exclusive), the others well      *)
(* inside.  Whatever the pixel arithmetic does with the remainder of the extent, the polygon is rejected: a panic naming the   *)
(* grid by default, an empty result when outside-grid polygons are ignored - never a snapped polygon.                          *)
EXTENDS Integers, Sequences, TLC, Json
Trace == ndJsonDeserialize("borderfine_trace.ndjson")
VARIABLE l
Init == l \in 1..Len(Trace)
Next == UNCHANGED l
Spec == Init /\ [][Next]_l
R == Trace[l]
Outside == R.d >= 2 /\ R.side \in {"left", "bottom", "right", "top"}
NeverSnapped == Outside => R.outcome # "snapped"
RejectedAsSpecified == Outside => R.outcome = (IF R.ig THEN "empty" ELSE "panic-outside-grid")
=============================================================================
