---------------------------- MODULE MortonProofs ----------------------------
(***************************************************************************)
(* TLAPS: every stage of the shift / or / mask network of Morton.tla is a  *)
(* union-homomorphism, for ARBITRARY sets of bit positions, masks and      *)
(* shift amounts (not only the enumerated ones).  Together with the TLC    *)
(* check on the generators (all words with at most two bits) this lifts    *)
(* "ToZ = Interleave" to all 2^64 pairs of addresses.                      *)
(***************************************************************************)
EXTENDS Integers
Bits == 0..63
Shl(S, k) == {i + k : i \in S} \cap Bits
Shr(S, k) == {i - k : i \in {j \in S : j >= k}}
Stage(X, k, M) == (X \cup Shl(X, k)) \cap M          \* one spreading stage: x = (x | x << k) & mask
Squeeze(X, k, M) == (X \cup Shr(X, k)) \cap M        \* one squeezing stage: x = (x | x >> k) & mask

THEOREM ShlLinear == \A A, B, k : Shl(A \cup B, k) = Shl(A, k) \cup Shl(B, k)
  BY DEF Shl
THEOREM ShrLinear == \A A, B, k : Shr(A \cup B, k) = Shr(A, k) \cup Shr(B, k)
  BY DEF Shr
THEOREM StageLinear == \A A, B, k, M : Stage(A \cup B, k, M) = Stage(A, k, M) \cup Stage(B, k, M)
  BY ShlLinear DEF Stage
THEOREM SqueezeLinear == \A A, B, k, M : Squeeze(A \cup B, k, M) = Squeeze(A, k, M) \cup Squeeze(B, k, M)
  BY ShrLinear DEF Squeeze
(* the final combination z = x | (y << 1) is linear in the pair *)
Combine(X, Y) == X \cup Shl(Y, 1)
THEOREM CombineLinear == \A A, B, C, D : Combine(A \cup B, C \cup D) = Combine(A, C) \cup Combine(B, D)
  BY ShlLinear DEF Combine
(* and the empty word is mapped to the empty word, so a stage is determined by its values on single bits *)
THEOREM StageEmpty == \A k, M : Stage({}, k, M) = {}
  BY DEF Stage, Shl
=============================================================================
