----------------------------- MODULE RealTrace -----------------------------
(***************************************************************************)
(* SnapPolygon on the built-in (real) tile matrix sets: C03, and the       *)
(* index-level parts of C01, C05, C06, C07, C08 on real grids.             *)
(* Projection (DESIGN 5.2): input vertices are exact decimals, given here  *)
(* as integers in a decimal step relative to a window anchor; returned     *)
(* coordinates are given as pixel indices of the tile matrix's ideal grid  *)
(* (computed by the harness with exact rationals from the document:        *)
(* corner of the extent, cellSize(z)/16), so ring structure and crossings  *)
(* are judged on indices; and per returned coordinate the distance `off`   *)
(* to the ideal pixel centre, two ulp of the ordinate, what the document's *)
(* own rounded cell sizes can account for (`docinc`), and the distance     *)
(* `moved` to the nearest input vertex in 1/1000 pixel.                    *)
(***************************************************************************)
EXTENDS SnapTrace

DevOf(z) == LET i == CHOOSE j \in 1..Len(R.lv) : R.lv[j].z = z IN R.dev_millipx[i]
(* C03: a pixel centre of the grid "cell size of z / 16 from the corner of the extent", up to the reported deviation *)
C03_WithinDeviation ==
  (Ok /\ R.dev_nano >= 0) => \A i \in 1..Len(R.pts) : R.pts[i].off <= R.dev_nano + R.pts[i].ulp2
(* the same, additionally allowing what the document's inconsistent (rounded) cell sizes explain: finding F8 *)
C03_WithinDocInconsistency ==
  (Ok /\ R.dev_nano >= 0) => \A i \in 1..Len(R.pts) : R.pts[i].off <= R.dev_nano + R.pts[i].ulp2 + R.pts[i].docinc
(* every returned vertex is the centre of the pixel of some input vertex: at most half a pixel (+ deviation) away *)
C03_CentreOfAnInputPixel ==
  Ok => \A i \in 1..Len(R.pts) : R.pts[i].moved <= 501 + DevOf(R.pts[i].z)
(* the quadtree level used for a tile matrix: id + log2(tile width) + 4 (given by the harness from the document; a wrong  *)
(* level in the code shows as an offset of up to half a pixel in C03_WithinDeviation)                                     *)
DeviationReported == R.dev_nano >= 0
=============================================================================
