------------------------------ MODULE SnapSteps ------------------------------
(***************************************************************************)
(* Trace validation of the INTERMEDIATE results of snap.addPointsAndSnap   *)
(* against the machine of Snap.tla (its variables chain, outers, inners,   *)
(* pls, live, result), recorded through the verif-tagged trace calls:      *)
(*   seg r i k pts     SnapSegment: vertices appended to the new ring of    *)
(*                     input ring r at level k for the segment from vertex i*)
(*   ring r k pts o in p   FinishRing(k): the routed ring and what the     *)
(*                     clean-up (spike removal + splitting) made of it     *)
(*   drop r k          the level is abandoned (shell collapsed)            *)
(*   asm k polys       Assemble(k)                                         *)
(* The per-segment step is deterministic and must equal the specified one  *)
(* (C02 at the level of the internal state); the heuristic steps are held  *)
(* to the contract the properties need (not to the reference PeelLoops).   *)
(***************************************************************************)
EXTENDS SnapTrace

St == R.steps
NS == Len(St)
IsSeg(j, r, k)  == St[j].e = "seg" /\ St[j].r = r /\ St[j].k = k
IsRing(j, r, k) == St[j].e = "ring" /\ St[j].r = r /\ St[j].k = k
RingOfInput(r)  == NormRing(R.poly[r + 1], r > 0)
RECURSIVE Concat(_, _, _, _)
Concat(j, r, k, upto) == IF j > upto THEN <<>>                                   \* concatenated pts of the seg events of (r,k) among steps 1..upto
                         ELSE (IF IsSeg(j, r, k) THEN St[j].pts ELSE <<>>) \o Concat(j + 1, r, k, upto)
PtsToPix(pts, sp) == [i \in 1..Len(pts) |-> PixSp(pts[i], sp)]
(* S1: every segment step appends exactly the cleaned route of that segment (snap.go:110-120, 366-380) *)
S1_SegmentIsRoute ==
  \A j \in 1..NS : St[j].e = "seg" =>
     LET r == St[j].r
         k == St[j].k
         sp == Span(k)
         rg == RingOfInput(r)
         i == St[j].i + 1
         prev == Concat(1, r, k, j - 1)
         rt == RouteSp(rg[i], Nxt(rg, i), HotAt(R.poly, sp), sp)
         cl == IF Len(rt) > 1 THEN SubSeq(rt, 1, Len(rt) - 1) ELSE rt
         cl2 == IF Len(prev) > 0 /\ Len(cl) > 0 /\ CentreSp(cl[1], sp) = prev[Len(prev)] THEN Tail(cl) ELSE cl
     IN  /\ i \in 1..Len(rg)
         /\ St[j].pts = [x \in 1..Len(cl2) |-> CentreSp(cl2[x], sp)]
(* S2: the ring handed to the clean-up is the concatenation of its segment steps, one per input vertex *)
S2_RingIsConcatenation ==
  \A j \in 1..NS : St[j].e = "ring" =>
     /\ St[j].pts = Concat(1, St[j].r, St[j].k, j - 1)
     /\ Cardinality({x \in 1..(j - 1) : IsSeg(x, St[j].r, St[j].k)}) = Len(R.poly[St[j].r + 1])
(* S3: what the clean-up may return for a routed ring *)
Unclosed(c) == IF Len(c) > 1 /\ c[1] = c[Len(c)] THEN SubSeq(c, 1, Len(c) - 1) ELSE c
UEdges(ring) == {{ring[i], Nxt(ring, i)} : i \in 1..Len(ring)}
RECURSIVE SumArea(_, _)
SumArea(rings, i) == IF i > Len(rings) THEN 0 ELSE SignedArea2(rings[i]) + SumArea(rings, i + 1)
VisitsIn(c, v) == Cardinality({i \in 1..Len(c) : c[i] = v})
S3_CleanupContract ==
  \A j \in 1..NS : St[j].e = "ring" =>
     LET c == Unclosed(St[j].pts)
         o == St[j].o
         n == St[j]["in"]
         p == St[j].p
         twice == \A i \in 1..Len(c) : VisitsIn(c, c[i]) <= 2
     IN  /\ \A x \in 1..Len(o) : Len(o[x]) >= 3 /\ Distinct(o[x]) /\ SeqToSet(o[x]) \subseteq SeqToSet(c) /\ Orientation(o[x]) >= 0
         /\ \A x \in 1..Len(n) : Len(n[x]) >= 3 /\ Distinct(n[x]) /\ SeqToSet(n[x]) \subseteq SeqToSet(c) /\ Orientation(n[x]) <= 0
         /\ \A x \in 1..Len(p) : Len(p[x]) \in 1..2 /\ SeqToSet(p[x]) \subseteq SeqToSet(c)
         /\ (Len(c) < 3 => (o = <<>> /\ n = <<>>))
         /\ twice => /\ \A x \in 1..Len(o) : UEdges(o[x]) \subseteq UEdges(c)             \* no invented edge
                     /\ \A x \in 1..Len(n) : UEdges(n[x]) \subseteq UEdges(c)
                     /\ Abs(SumArea(o, 1) + SumArea(n, 1)) = Abs(SignedArea2(c))         \* no area invented or lost
(* S4: a level is abandoned exactly when the shell collapsed (and nothing is to be kept); nothing happens on it afterwards *)
S4_DropRule ==
  /\ \A j \in 1..NS : St[j].e = "drop" =>
        /\ St[j].r = 0 /\ j > 1 /\ IsRing(j - 1, 0, St[j].k)
        /\ St[j - 1].o = <<>> /\ (~R.keep \/ St[j - 1].p = <<>>)
        /\ \A x \in (j + 1)..NS : St[x].k # St[j].k
  /\ \A j \in 1..NS : (St[j].e = "ring" /\ St[j].r = 0 /\ St[j].o = <<>> /\ (~R.keep \/ St[j].p = <<>>)) =>
        (j < NS /\ St[j + 1].e = "drop" /\ St[j + 1].k = St[j].k)
(* S5: what the assembly may return *)
AllO(k) == UNION {SeqToSet(St[j].o) : j \in {x \in 1..NS : St[x].e = "ring" /\ St[x].k = k}}
AllI(k) == UNION {SeqToSet(St[j]["in"]) : j \in {x \in 1..NS : St[x].e = "ring" /\ St[x].k = k}}
Unrev(ring) == IF R.rev THEN Reverse(ring) ELSE ring
S5_AssembleContract ==
  \A j \in 1..NS : St[j].e = "asm" =>
     LET ps == St[j].polys
         k == St[j].k
     IN  \A x \in 1..Len(ps) :
            /\ Len(ps[x]) >= 1
            /\ \/ \E s \in AllO(k) : CyclicEq(Unrev(ps[x][1]), s)
               \/ \E s \in AllI(k) : CyclicRevEq(Unrev(ps[x][1]), s)                      \* a hole without a shell, turned into a shell
            /\ \A h \in 2..Len(ps[x]) :
                 /\ \E s \in AllI(k) : CyclicEq(Unrev(ps[x][h]), s)
                 /\ (Valid /\ AtMostTwice(Chains(R.poly, Span(k)))) =>
                       \A v \in SeqToSet(ps[x][h]) : PointInRing(ps[x][1], v) >= 0        \* holes in or on their shell (C18's scope)
(* S6: the value returned is the assembled polygons followed by the kept points and lines *)
RECURSIVE PLs(_, _)
PLs(j, k) == IF j > NS THEN <<>>
             ELSE (IF St[j].e = "ring" /\ St[j].k = k /\ ~(\E x \in (j + 1)..NS : St[x].e = "drop" /\ St[x].k = k /\ x = j + 1)
                   THEN [y \in 1..Len(St[j].p) |-> <<St[j].p[y]>>] ELSE <<>>) \o PLs(j + 1, k)
AsmOf(k) == IF \E j \in 1..NS : St[j].e = "asm" /\ St[j].k = k
            THEN St[CHOOSE j \in 1..NS : St[j].e = "asm" /\ St[j].k = k].polys ELSE <<>>
S6_ReturnIsAssembly ==
  Ok => \A e \in SeqToSet(R.lv) :
          LET exp == AsmOf(e.k) \o (IF R.keep THEN PLs(1, e.k) ELSE <<>>)
          IN  IF exp = <<>> THEN ~HasRes(R, e.z) ELSE HasRes(R, e.z) /\ PolysAt(R, e.z) = exp
StepsRecorded == Ok => NS > 0
=============================================================================
