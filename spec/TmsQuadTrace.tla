---------------------------- MODULE TmsQuadTrace ----------------------------
(***************************************************************************)
(* C14, code side: each record is the verdict of the real validation       *)
(* (DeviationStats then IsQuadTree, the composition of package main, also  *)
(* observed through the real binary for the built-in sets) on a built-in   *)
(* tile matrix set or a single-field perturbation of an accepted one,      *)
(* together with the harness's projection of that document to the          *)
(* abstract matrices of TmsQuad.tla (computed from the document text with  *)
(* exact rationals, independently of texel).                               *)
(***************************************************************************)
EXTENDS Integers, Sequences, FiniteSets, TLC, Json
CONSTANT Depth
VARIABLES lvl, fld
Q == INSTANCE TmsQuad
Trace == ndJsonDeserialize("tmsquad_trace.ndjson")
VARIABLE l
TInit == l \in 1..Len(Trace) /\ lvl = 1 /\ fld = "mw"
TNext == UNCHANGED <<l, lvl, fld>>
TSpec == TInit /\ [][TNext]_<<l, lvl, fld>>
R == Trace[l]
NeverPanics    == R.verdict # "panic"
VerdictMatches == R.verdict # "panic" => R.verdict = Q!Validate(R.mats)
(* an accepted set: the pixel size texel uses for tile matrix z is cellSize(z)/16 (relative error below 1e-6,  *)
(* the rounding of the documents' own cell sizes, finding F8, stays below that; a wrong level offset or factor *)
(* is off by a factor of two or more)                                                                          *)
PixelSize == R.verdict = "ok" => \A i \in 1..Len(R.pixel_err_ppb) : R.pixel_err_ppb[i] \in (0 - 1000)..1000
(* the binary agrees with the library composition *)
BinaryAgrees == R.binary # "n/a" => R.binary = R.verdict
=============================================================================
