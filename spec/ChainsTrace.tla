---------------------------- MODULE ChainsTrace ----------------------------
(* records of the real snap.kmpDeduplicate (verif export) on every label sequence of Chains.tla *)
EXTENDS Integers, Sequences, FiniteSets, TLC, Json
Trace == ndJsonDeserialize("chains_trace.ndjson")
VARIABLE l
Init == l \in 1..Len(Trace)
Next == UNCHANGED l
Spec == Init /\ [][Next]_l
R == Trace[l]
SetOf(s) == {s[i] : i \in 1..Len(s)}
Adj(s) == IF Len(s) < 2 THEN {} ELSE {{s[i], s[(i % Len(s)) + 1]} : i \in 1..Len(s)}
NoPanic == R.outcome = "ok"
(* spike removal only removes: what comes out is a sub-multiset of labels and every adjacency existed before (F5 signature) *)
OnlyLabelsOfInput == R.outcome = "ok" => SetOf(R.out) \subseteq SetOf(R.seq)
NoInventedAdjacency == R.outcome = "ok" => Adj(R.out) \subseteq Adj(R.seq) \cup {{x} : x \in SetOf(R.seq)}
NeverLonger == R.outcome = "ok" => Len(R.out) <= Len(R.seq)
=============================================================================
