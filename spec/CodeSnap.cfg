CONSTANTS S = 4  Stride = 16  GroupMax = 14  MaxRun = 12
SPECIFICATION Spec
INVARIANTS AsTranscribedSnap
CHECK_DEADLOCK FALSE
