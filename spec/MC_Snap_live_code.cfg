\* termination under weak fairness (and all safety properties) on the 3x3 lattice of a one-pixel grid
CONSTANTS S = 2  N = 1  Ks = {0, 1}  Shape = "tri"  InputPolys <- MCInputs  Impl = "code"
SPECIFICATION MCSpec
INVARIANTS C06_Total C09_Reject C01_NoCrossing C05_WellFormed C04_VerticesAreCentres C07C08_FunctionOfLevel C18_AreaPreserved
PROPERTIES MCTerminates
