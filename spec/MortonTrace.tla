---------------------------- MODULE MortonTrace ----------------------------
(***************************************************************************)
(* Trace validation for C17: records produced by the real morton.ToZ /     *)
(* morton.FromZ / pointindex.getQuadrantZs on (random, wide, structured)   *)
(* machine words are judged by the set model of Morton.tla.                *)
(* One (initial) state per record; every clause of the property is its own          *)
(* invariant so a failure names the clause and the record.                 *)
(***************************************************************************)
EXTENDS Integers, FiniteSets, Sequences, TLC, Json, MortonConsts

M == INSTANCE Morton WITH x0 <- {}, y0 <- {}, x <- {}, y <- {}, stage <- 0, dir <- "toZ", z <- {}

Trace == ndJsonDeserialize("morton_trace.ndjson")
S(seq) == {seq[i] : i \in DOMAIN seq}

VARIABLE l
\* the records are independent observations of pure functions: each is an initial state
Init == l \in 1..Len(Trace)
Next == UNCHANGED l
Spec == Init /\ [][Next]_l

Rec == Trace[l]
Live == l <= Len(Trace)

\* op = "key": x, y, z = ToZ(x,y), ok, fx/fy = FromZ(z)
KeyOK == (Live /\ Rec.op = "key" /\ M!Encodable(S(Rec.x), S(Rec.y))) =>
            S(Rec.z) = M!Interleave(S(Rec.x), S(Rec.y))
NetworkOK == (Live /\ Rec.op = "key") => S(Rec.z) = M!ToZ(S(Rec.x), S(Rec.y))
OkFlagOK == (Live /\ Rec.op = "key") => (Rec.ok = M!Encodable(S(Rec.x), S(Rec.y)))
RoundTripOK == (Live /\ Rec.op = "key" /\ M!Encodable(S(Rec.x), S(Rec.y))) =>
            (S(Rec.fx) = S(Rec.x) /\ S(Rec.fy) = S(Rec.y))
\* op = "lin": z1 = ToZ(x1,y1), z2 = ToZ(x2,y2), z12 = ToZ(x1|x2, y1|y2)
LinearOK == (Live /\ Rec.op = "lin") => S(Rec.z12) = S(Rec.z1) \cup S(Rec.z2)
\* op = "parent": z = ToZ(x,y), zp = ToZ(x>>1, y>>1)
ParentOK == (Live /\ Rec.op = "parent") => S(Rec.zp) = M!ParentKey(S(Rec.z))
\* op = "kids": z, k = the four keys of getQuadrantZs(z)
KidsOK == (Live /\ Rec.op = "kids" /\ ~Rec.panicked) =>
            \A q \in 0..3 : /\ M!ParentKey(S(Rec.k[q + 1])) = S(Rec.z)
                            /\ (q % 2 = 1) = (0 \in S(Rec.k[q + 1]))
                            /\ (q \div 2 = 1) = (1 \in S(Rec.k[q + 1]))
\* children of a pixel whose doubled address needs 33 bits are not encodable: reported, not aliased (x, y: the parent's address)
KidsEncodableOK == (Live /\ Rec.op = "kids") => (Rec.panicked = (31 \in S(Rec.x) \/ 31 \in S(Rec.y)))
\* op = "must": MustToZ(x, y), the entry point of every production caller
MustOK == (Live /\ Rec.op = "must") =>
            /\ Rec.panicked = ~M!Encodable(S(Rec.x), S(Rec.y))
            /\ (~Rec.panicked => S(Rec.z) = M!Interleave(S(Rec.x), S(Rec.y)))
\* op = "deep": a vertex inserted into a point index deeper than 32 levels; wide = its deepest pixel address needs 33 bits
DeepOK == (Live /\ Rec.op = "deep") => (Rec.reported = Rec.wide)
\* op = "decode": arbitrary 64-bit z, fx/fy = FromZ(z): must re-encode to z
DecodeOK == (Live /\ Rec.op = "decode") => M!Interleave(S(Rec.fx), S(Rec.fy)) = S(Rec.z)

=============================================================================
