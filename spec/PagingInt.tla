------------------------------ MODULE PagingInt ------------------------------
(***************************************************************************)
(* The counting skeleton of Paging.tla (C12) over integers only: how many  *)
(* features are handed over, buffered, committed, in how many              *)
(* transactions - for EVERY page size and EVERY feature count.             *)
(* Paging.tla refines it under nrows <- Len(rows), buf <- Len(buffer)      *)
(* (checked by TLC: MC_Paging.cfg, property RefinesInt), and Apalache      *)
(* proves IndInv inductive without bounds on P and count:                  *)
(*   apalache-mc check --init=IndInit --inv=IndInv --length=1              *)
(*   apalache-mc check --init=Init    --inv=IndInv --length=0              *)
(* so "every feature is committed exactly once, in full pages plus one     *)
(* final page, in count div P + 1 transactions" holds for all sizes, not   *)
(* only the page sizes 1..4 and counts 0..13 TLC enumerates.               *)
(***************************************************************************)
EXTENDS Integers

VARIABLES
  \* @type: Int;
  P,
  \* @type: Int;
  count,
  \* @type: Int;
  sent,
  \* @type: Int;
  buf,
  \* @type: Int;
  nrows,
  \* @type: Int;
  txs,
  \* @type: Str;
  pc
vars == <<P, count, sent, buf, nrows, txs, pc>>

Init == /\ P \in Nat /\ P >= 1 /\ count \in Nat
        /\ sent = 0 /\ buf = 0 /\ nrows = 0 /\ txs = 0 /\ pc = "recv"
Recv == /\ pc = "recv" /\ sent < count
        /\ sent' = sent + 1 /\ buf' = buf + 1
        /\ pc' = IF (buf + 1) % P = 0 THEN "flush" ELSE "recv"
        /\ UNCHANGED <<P, count, nrows, txs>>
FlushFull == /\ pc = "flush"
             /\ nrows' = nrows + buf /\ buf' = 0 /\ txs' = txs + 1 /\ pc' = "recv"
             /\ UNCHANGED <<P, count, sent>>
FlushFinal == /\ pc = "recv" /\ sent = count
              /\ nrows' = nrows + buf /\ buf' = 0 /\ txs' = txs + 1 /\ pc' = "done"
              /\ UNCHANGED <<P, count, sent>>
Done == pc = "done" /\ UNCHANGED vars
Next == Recv \/ FlushFull \/ FlushFinal \/ Done
Spec == Init /\ [][Next]_vars

(* the inductive invariant *)
IndInv ==
  /\ P \in Nat /\ P >= 1 /\ count \in Nat /\ sent \in Nat /\ buf \in Nat /\ nrows \in Nat /\ txs \in Nat
  /\ pc \in {"recv", "flush", "done"}
  /\ sent <= count
  /\ nrows + buf = sent                                   \* conservation
  /\ nrows = P * txs \/ pc = "done"                       \* only full pages before the end
  /\ pc = "recv"  => buf < P
  /\ pc = "flush" => buf = P
  /\ pc = "done"  => /\ sent = count /\ buf = 0 /\ nrows = count
                     /\ txs >= 1 /\ P * (txs - 1) <= count /\ count < P * txs       \* txs = count div P + 1
IndInit == IndInv
(* what C12 says about counts, as a consequence *)
Complete == pc = "done" => (nrows = count /\ txs = (count \div P) + 1)
=============================================================================
