----------------------------- MODULE MC_Border -----------------------------
(***************************************************************************)
(* Exhaustive border model for C09.  A grid of N x N pixels; the offending *)
(* vertex p ranges over every lattice point within R pixels of the grid    *)
(* boundary (inside and outside, all four sides and corners); it is placed *)
(* at every position k of a triangle whose other vertices are well inside; *)
(* both values of ignore-outside-grid.  Each state is a test vector whose   *)
(* specified outcome the harness compares with the real SnapPolygon and    *)
(* InsertPoint on synthetic grids (zero / non-zero origin, both corner     *)
(* conventions) and on built-in grids, distances scaled from the borders.  *)
(***************************************************************************)
EXTENDS Grid, Json
CONSTANTS N, R
Band == (0 - R * S)..(N * S + R * S)
NearBorder(p) == \/ p[1] < R * S \/ p[1] >= (N - R) * S \/ p[2] < R * S \/ p[2] >= (N - R) * S
Inner == <<<<(N \div 2) * S - 1, (N \div 2) * S - 1>>, <<(N \div 2) * S + 2, (N \div 2) * S - 1>>, <<(N \div 2) * S, (N \div 2) * S + 2>>>>

(* where the offending vertex sits: in a plain triangle, in the shell of a polygon with a hole (the hole comes later and *)
(* is entirely inside), or in the hole itself (the shell is fine)                                                     *)
Shapes == {"tri", "shell", "hole"}
VARIABLES p, k, ig, shape
vars == <<p, k, ig, shape>>
Init == /\ p \in {q \in Band \X Band : NearBorder(q)} /\ k \in 1..3 /\ ig \in BOOLEAN /\ shape \in Shapes
Next == UNCHANGED vars
Spec == Init /\ [][Next]_vars

Small == <<<<(N \div 2) * S, (N \div 2) * S>>, <<(N \div 2) * S + 1, (N \div 2) * S>>, <<(N \div 2) * S, (N \div 2) * S + 1>>>>
Poly == [i \in 1..3 |-> IF i = k THEN p ELSE Inner[i]]
AllVertices == IF shape = "tri" THEN Poly ELSE Poly \o Small      \* the second ring is in-grid in either role
Expect == Outcome(AllVertices, N, ig)
\* never snapped onto a border pixel: an accepted polygon has its vertex inside, so its pixel is a grid pixel
AcceptedIsInside == Expect = "snapped" => (PixOf(p)[1] \in 0..(N - 1) /\ PixOf(p)[2] \in 0..(N - 1))
HalfOpen == /\ (p[1] = 0 /\ p[2] \in 0..(N * S - 1)) => InGrid(p, N)
            /\ (p[1] = N * S) => ~InGrid(p, N)
            /\ (p[2] = N * S) => ~InGrid(p, N)
            /\ (p[1] < 0 \/ p[2] < 0) => ~InGrid(p, N)
EmitVec == PrintT(<<"VEC", ToJson([p |-> p, k |-> k - 1, ig |-> ig, shape |-> shape, expect |-> Expect, inside |-> InGrid(p, N)])>>)
=============================================================================
