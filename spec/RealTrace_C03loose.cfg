CONSTANTS S = 4  Stride = 16  GroupMax = 14  MaxRun = 12
SPECIFICATION Spec
INVARIANTS DeviationReported C03_WithinDocInconsistency C03_CentreOfAnInputPixel
CHECK_DEADLOCK FALSE
