CONSTANTS Depth = 0
SPECIFICATION TSpec
INVARIANTS AllKnown NeverPanics MalformedRejected RoundTrip BuiltinFaithful
CHECK_DEADLOCK FALSE
