------------------------------ MODULE TmsJson ------------------------------
(***************************************************************************)
(* Tile-matrix-set documents (tms20.go: UnmarshalJSON / MarshalJSON), C16. *)
(* An abstract document is a built-in document plus a set of structural    *)
(* mutations; a mutation is <<where, field, op>> with                      *)
(*   where  "doc" or a tile matrix position "first" | "mid" | "last"       *)
(*   field  the JSON key                                                    *)
(*   op     delete | null | toString | toNumber | toArray | toObject |      *)
(*          empty | dropElement | elemNumber | zero | negative | fraction |*)
(*          idAlpha | idFloat | arrayLong | arrayShort | elemString |      *)
(*          badString | crsUriObject | crsWkt | crsRefSys | sameAsPrev |    *)
(*          fine (a number with more than nine decimals / of size 1e-12)    *)
(* The property lists which documents MUST be rejected with an error       *)
(* (missing CRS or tile matrices, wrong types, non-positive sizes,         *)
(* non-integer ids; we read a missing required field as "incomplete");     *)
(* every other document only must not make the decoder panic, and if it is *)
(* accepted it must survive encode / decode unchanged.                     *)
(***************************************************************************)
EXTENDS Integers, Sequences, FiniteSets, TLC

Sizes == {"tileWidth", "tileHeight", "matrixWidth", "matrixHeight"}
DocMut ==   \* <<field, op, class>>
  { <<"crs", "delete", "reject">>, <<"crs", "null", "reject">>, <<"crs", "toNumber", "reject">>, <<"crs", "toArray", "reject">>,
    <<"crs", "toString", "nopanic">>, <<"crs", "toObject", "nopanic">>,
    \* the other forms a CRS may take (unmarshalCRS: {uri}, {wkt: projjson}, {referenceSystem}): accepted documents, must round-trip
    <<"crs", "crsUriObject", "nopanic">>, <<"crs", "crsWkt", "nopanic">>, <<"crs", "crsRefSys", "nopanic">>,
    <<"boundingBox.crs", "crsUriObject", "nopanic">>, <<"boundingBox.crs", "crsWkt", "nopanic">>, <<"boundingBox.crs", "crsRefSys", "nopanic">>,
    <<"tileMatrices", "delete", "reject">>, <<"tileMatrices", "null", "reject">>, <<"tileMatrices", "toString", "reject">>,
    <<"tileMatrices", "toNumber", "reject">>, <<"tileMatrices", "toObject", "reject">>, <<"tileMatrices", "empty", "reject">>,
    <<"tileMatrices", "elemNumber", "reject">>, <<"tileMatrices", "dropElement", "nopanic">>,
    <<"orderedAxes", "toNumber", "reject">>, <<"orderedAxes", "toString", "reject">>, <<"orderedAxes", "delete", "nopanic">>,
    <<"orderedAxes", "empty", "nopanic">>,
    <<"title", "toNumber", "reject">>, <<"title", "delete", "nopanic">>,
    <<"keywords", "toString", "reject">>, <<"keywords", "delete", "nopanic">>,
    <<"boundingBox", "toString", "reject">>, <<"boundingBox", "delete", "nopanic">>, <<"boundingBox", "toObject", "nopanic">>,
    <<"uri", "toNumber", "reject">>, <<"uri", "delete", "nopanic">>, <<"uri", "badString", "nopanic">>,
    \* inside the (optional) bounding box
    <<"boundingBox.crs", "delete", "nopanic">>, <<"boundingBox.crs", "null", "nopanic">>, <<"boundingBox.crs", "toNumber", "reject">>,
    <<"boundingBox.lowerLeft", "delete", "nopanic">>, <<"boundingBox.lowerLeft", "arrayLong", "reject">>,
    <<"boundingBox.lowerLeft", "arrayShort", "reject">>, <<"boundingBox.upperRight", "toString", "reject">>,
    <<"boundingBox.upperRight", "elemString", "reject">>, <<"boundingBox.orderedAxes", "toNumber", "reject">>,
    \* values no built-in document holds: more than nine decimals, 1e-12 (an encoder that rounds does not round-trip them)
    <<"boundingBox.lowerLeft", "fine", "nopanic">>, <<"boundingBox.upperRight", "fine", "nopanic">> }
TmMut ==
  { <<"id", "delete", "reject">>, <<"id", "toNumber", "reject">>, <<"id", "idAlpha", "reject">>, <<"id", "idFloat", "reject">>,
    <<"cellSize", "delete", "reject">>, <<"cellSize", "toString", "reject">>, <<"cellSize", "zero", "reject">>, <<"cellSize", "negative", "reject">>,
    <<"scaleDenominator", "delete", "reject">>, <<"scaleDenominator", "toString", "reject">>,
    <<"scaleDenominator", "zero", "nopanic">>, <<"scaleDenominator", "negative", "nopanic">>,
    <<"scaleDenominator", "sameAsPrev", "nopanic">>, <<"cellSize", "sameAsPrev", "nopanic">>,      \* two matrices tie in a value
    <<"pointOfOrigin", "delete", "reject">>, <<"pointOfOrigin", "toString", "reject">>, <<"pointOfOrigin", "toNumber", "reject">>,
    <<"pointOfOrigin", "elemString", "reject">>, <<"pointOfOrigin", "arrayLong", "reject">>, <<"pointOfOrigin", "arrayShort", "reject">>,
    <<"cornerOfOrigin", "toNumber", "reject">>, <<"cornerOfOrigin", "badString", "nopanic">>, <<"cornerOfOrigin", "delete", "nopanic">>,
    <<"pointOfOrigin", "fine", "nopanic">>, <<"cellSize", "fine", "nopanic">>, <<"scaleDenominator", "fine", "nopanic">> }
  \cup UNION {{ <<s, "delete", "reject">>, <<s, "toString", "reject">>, <<s, "zero", "reject">>, <<s, "negative", "reject">>,
                <<s, "fraction", "nopanic">> } : s \in Sizes}
Positions == {"first", "mid", "last"}
AllMutations == {<<"doc", m[1], m[2]>> : m \in DocMut} \cup {<<p, m[1], m[2]>> : p \in Positions, m \in TmMut}
ClassOf(mu) == IF mu[1] = "doc" THEN (CHOOSE m \in DocMut : m[1] = mu[2] /\ m[2] = mu[3])[3]
               ELSE (CHOOSE m \in TmMut : m[1] = mu[2] /\ m[2] = mu[3])[3]
Known(mu) == IF mu[1] = "doc" THEN \E m \in DocMut : m[1] = mu[2] /\ m[2] = mu[3]
             ELSE mu[1] \in Positions /\ \E m \in TmMut : m[1] = mu[2] /\ m[2] = mu[3]
(* what the decoder must do with a mutated document *)
Class(ms) == IF \E mu \in ms : ClassOf(mu) = "reject" THEN "reject" ELSE "nopanic"
(* two mutations are independent if they touch different places (the harness applies them in a fixed order:        *)
(* tile-matrix-level first; dropElement removes the second matrix, which no position refers to)                     *)
(* a mutation inside the bounding box and a mutation of the bounding box itself touch the same place: the outer one would undo the
   inner one (boundingBox.crs -> number, then boundingBox deleted, is a valid document again) *)
InBBox == {"boundingBox.crs", "boundingBox.lowerLeft", "boundingBox.upperRight", "boundingBox.orderedAxes"}
Parent(f) == IF f \in InBBox THEN "boundingBox" ELSE f
SamePlace(a, b) == a[1] = b[1] /\ (a[2] = b[2] \/ Parent(a[2]) = b[2] \/ Parent(b[2]) = a[2])

(* ---- the mutation machine: documents up to Depth mutations deep ---- *)
CONSTANT Depth
VARIABLE muts
Init == muts = {}
Mutate == /\ Cardinality(muts) < Depth
          /\ \E mu \in AllMutations : /\ \A x \in muts : ~SamePlace(x, mu)
                                      /\ muts' = muts \cup {mu}
Next == Mutate
Spec == Init /\ [][Next]_muts
Monotone == [][Class(muts) = "reject" => Class(muts') = "reject"]_muts     \* further damage never makes a document acceptable
=============================================================================
