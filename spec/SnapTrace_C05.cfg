CONSTANTS S = 4  Stride = 16  GroupMax = 14  MaxRun = 12
SPECIFICATION Spec
INVARIANTS EmitStats ProjectionExact C05_WellFormed C05_KeepExtends C05_CollapsedPartsKept
CHECK_DEADLOCK FALSE
