------------------------------- MODULE MC_Snap -------------------------------
(* Exhaustive design model of Snap.tla: every triangle (and, in the larger configurations, every quadrilateral and a
   catalogue of polygons with a hole) on the lattice of a small grid, including vertices on and beyond the grid border. *)
EXTENDS Snap
CONSTANT Shape
Lat == 0..(N * S)                       \* the value N*S is the (exclusive) right/top border: such vertices are outside
Pts == Lat \X Lat
Less(p, q) == p[1] < q[1] \/ (p[1] = q[1] /\ p[2] < q[2])
After(a) == {p \in Pts : Less(a, p)}
(* rings start at their smallest vertex (a ring is cyclic; both directions are kept) *)
Inner == (1..(N * S - 2)) \X (1..(N * S - 2))
Shell == <<<<0, 0>>, <<N * S - 1, 0>>, <<N * S - 1, N * S - 1>>, <<0, N * S - 1>>>>
MCInputs == {}        \* (Snap!Init is not used by this model: see MCInit / Pick below)

(* TLC computes initial states with one thread; to let the workers share the evaluation the model starts from the polygon's
   first vertex (and the flags) and completes the polygon in a first step *)
Completions(a) ==
  CASE Shape = "tri"   -> {t \in {<<<<a, b, c>>>> : b \in After(a), c \in After(a)} : t[1][2] # t[1][3]}
    [] Shape = "quad"  -> {q \in {<<<<a, b, c, d>>>> : b \in After(a), c \in After(a), d \in After(a)} :
                             q[1][2] # q[1][3] /\ q[1][3] # q[1][4] /\ q[1][2] # q[1][4]}
    [] Shape = "frame" -> {f \in {<<Shell, <<a, b, c>>>> : b \in {p \in Inner : Less(a, p)}, c \in {p \in Inner : Less(a, p)}} : f[2][2] # f[2][3]}
Seeds == {a \in (IF Shape = "frame" THEN Inner ELSE Pts) : Completions(a) # {}}
MCInit == /\ poly \in {<<<<a>>>> : a \in Seeds} /\ keep \in BOOLEAN /\ rev \in BOOLEAN /\ ig \in BOOLEAN
          /\ req \in (SUBSET Ks) \ {{}}
          /\ pc = "pick" /\ vq = {} /\ hot = {} /\ live = req /\ ri = 0 /\ si = 0 /\ ring = <<>>
          /\ chain = EmptyBy /\ todo = {} /\ outers = EmptyBy /\ inners = EmptyBy /\ pls = EmptyBy
          /\ result = [k \in {} |-> <<>>]
Pick == /\ pc = "pick"
        /\ poly' \in Completions(poly[1][1])
        /\ vq' = AllVerts(poly') /\ pc' = "insert"
        /\ UNCHANGED <<keep, rev, ig, req, hot, live, ri, si, ring, chain, todo, outers, inners, pls, result>>
MCNext == Pick \/ Next
MCSpec == MCInit /\ [][MCNext]_vars /\ WF_vars(MCNext)
MCTerminates == <>(pc \in {"done", "panic"})
=============================================================================
