------------------------------- MODULE MC_Snap -------------------------------
(* Exhaustive design model of Snap.tla: every triangle (and, in the larger configurations, every quadrilateral and a
   catalogue of polygons with a hole) on the lattice of a small grid, including vertices on and beyond the grid border. *)
EXTENDS Snap
CONSTANT Shape
Lat == 0..(N * S)                       \* the value N*S is the (exclusive) right/top border: such vertices are outside
Pts == Lat \X Lat
Less(p, q) == p[1] < q[1] \/ (p[1] = q[1] /\ p[2] < q[2])
After(a) == {p \in Pts : Less(a, p)}
(* rings start at their smallest vertex (a ring is cyclic; both directions are kept) *)
TrisCanon == UNION {{t \in {<<<<a, b, c>>>> : b \in After(a), c \in After(a)} : t[1][2] # t[1][3]} : a \in Pts}
QuadsCanon == UNION {{q \in {<<<<a, b, c, d>>>> : b \in After(a), c \in After(a), d \in After(a)} :
                         q[1][2] # q[1][3] /\ q[1][3] # q[1][4] /\ q[1][2] # q[1][4]} : a \in Pts}
(* a frame with a triangular hole, the hole at every position: holes collapse, touch the shell's pixels, cancel *)
Inner == (1..(N * S - 2)) \X (1..(N * S - 2))
Shell == <<<<0, 0>>, <<N * S - 1, 0>>, <<N * S - 1, N * S - 1>>, <<0, N * S - 1>>>>
FramesCanon == UNION {{f \in {<<Shell, <<a, b, c>>>> : b \in {p \in Inner : Less(a, p)}, c \in {p \in Inner : Less(a, p)}} : f[2][2] # f[2][3]} : a \in Inner}
MCInputs == CASE Shape = "tri" -> TrisCanon [] Shape = "quad" -> QuadsCanon [] Shape = "frame" -> FramesCanon
=============================================================================
