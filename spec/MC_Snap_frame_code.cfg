\* a square frame with every triangular hole on the lattice of a 3x3-pixel grid, all flags, two levels
CONSTANTS S = 2  N = 3  Ks = {0, 1}  Shape = "frame"  InputPolys <- MCInputs  Impl = "code"
SPECIFICATION MCSpec
INVARIANTS C06_Total C09_Reject C01_NoCrossing C05_WellFormed C04_VerticesAreCentres C07C08_FunctionOfLevel C18_AreaPreserved
