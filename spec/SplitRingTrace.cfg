SPECIFICATION Spec
INVARIANTS NoPanic AsTranscribed ConservesEdges SimpleLoops
CHECK_DEADLOCK FALSE
