\* N=8 pixels, S=4, two pixels each side of every border: every lattice point of the band x 3 positions x 2 flags
CONSTANTS S = 4  N = 8  R = 2
SPECIFICATION Spec
INVARIANTS AcceptedIsInside HalfOpen EmitVec
CHECK_DEADLOCK FALSE
