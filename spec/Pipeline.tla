------------------------------ MODULE Pipeline ------------------------------
(***************************************************************************)
(* The goroutine pipeline of processing.ProcessFeatures (processing.go)    *)
(* as called per table from main.go:                                       *)
(*                                                                         *)
(*   Caller --starts--> Reader --before--> Snapper --after--> Router       *)
(*                                   Router --tch[t]--> Writer[t]  (t in Targets)*)
(*                                                                         *)
(* One action per channel operation / critical section of the code.        *)
(* Channels have capacity Cap; Cap = 0 is Go's unbuffered channel: the     *)
(* sender deposits the value and stays blocked until a receiver took it.   *)
(* The properties (C10, C11) hold for every capacity, so the trace         *)
(* specification instantiates Cap = N (never blocks) and does not reject   *)
(* a behaviour of a buffered refactoring.                                  *)
(*                                                                         *)
(* Abstract data: a feature is its index 1..N in the source table; what    *)
(* the snapping function does with it is out[i], the set of targets that   *)
(* get geometry for it (all targets for non-polygon features).             *)
(***************************************************************************)
EXTENDS Integers, Sequences, FiniteSets, SequencesExt

CONSTANTS N,          \* largest number of features per table
          Targets,    \* all tile matrix ids (abstract: 1..k)
          Cap,        \* channel capacity (0 = unbuffered)
          NT,         \* number of tables processed sequentially by the caller
          NChoices,   \* feature counts a table may have (subset of 0..N; includes 0 = empty table)
          TgChoices   \* sets of targets a job may have (non-empty subsets of Targets)

VARIABLES
  n,          \* number of features of the table being processed
  tg,         \* the targets of this job
  out,        \* [1..N -> SUBSET Targets]  outcome of the polygon function per feature (chosen per run)
  table,      \* the Table field the caller assigns before each run (main.go:170-175); 0 before the first
  cpc,        \* caller: "idle" | "running" | "finished"
  rnext,      \* reader: index of the next feature to send (N+1: all sent)
  rpc,        \* reader: "send" | "wait" | "closed" | "off"
  spc,        \* snapper (processFeatures): "recv" | "send" | "wait" | "closing" | "done" | "off"
  scur,       \* feature the snapper is working on
  spend,      \* targets for which the wrapper of scur still has to be sent (map iteration: any order)
  xpc,        \* router (writeFeaturesToTargets): "recv" | "fwd" | "wait" | "closing" | "join" | "done" | "off"
  xhold,      \* <<feature, target>> the router is forwarding
  toClose,    \* target channels the router still has to close
  wpc,        \* [Targets -> "recv" | "done" | "off"]
  received,   \* [Targets -> Seq(1..N)]   what each writer got, in order
  wtable,     \* [Targets -> table value the writer used for its last write]
  qBefore, qAfter, qT,      \* channel contents
  clBefore, clAfter, clT    \* channel closed flags

vars == <<n, tg, out, table, cpc, rnext, rpc, spc, scur, spend, xpc, xhold, toClose, wpc, received, wtable,
          qBefore, qAfter, qT, clBefore, clAfter, clT>>

Room(q)   == Len(q) < (IF Cap = 0 THEN 1 ELSE Cap)
AfterSend == IF Cap = 0 THEN "wait" ELSE "next"

Expected(t) == SelectSeq([i \in 1..n |-> i], LAMBDA i : t \in out[i])

Init ==
  /\ n = 0 /\ tg \in TgChoices
  /\ out = [i \in 1..N |-> {}] /\ table = 0 /\ cpc = "idle"
  /\ rnext = 1 /\ rpc = "off" /\ spc = "off" /\ scur = 0 /\ spend = {}
  /\ xpc = "off" /\ xhold = <<0, 0>> /\ toClose = {}
  /\ wpc = [t \in Targets |-> "off"] /\ received = [t \in Targets |-> <<>>] /\ wtable = [t \in Targets |-> 0]
  /\ qBefore = <<>> /\ qAfter = <<>> /\ qT = [t \in Targets |-> <<>>]
  /\ clBefore = FALSE /\ clAfter = FALSE /\ clT = [t \in Targets |-> FALSE]

(* main.go:166-177 + processing.go:135-153: assign Table, make channels, start the goroutines *)
StartRun ==
  /\ cpc = "idle" /\ table < NT
  /\ table' = table + 1
  /\ n' \in NChoices /\ tg' = tg
  /\ out' \in {f \in [1..N -> SUBSET tg] : \A i \in 1..N : i > n' => f[i] = {}}
  /\ cpc' = "running"
  /\ rnext' = 1 /\ rpc' = "send" /\ spc' = "recv" /\ scur' = 0 /\ spend' = {}
  /\ xpc' = "recv" /\ xhold' = <<0, 0>> /\ toClose' = tg
  /\ wpc' = [t \in Targets |-> IF t \in tg THEN "recv" ELSE "off"] /\ received' = [t \in Targets |-> <<>>]
  /\ qBefore' = <<>> /\ qAfter' = <<>> /\ qT' = [t \in Targets |-> <<>>]
  /\ clBefore' = FALSE /\ clAfter' = FALSE /\ clT' = [t \in Targets |-> FALSE]
  /\ UNCHANGED wtable

(* ---------------- Reader: Source.ReadFeatures ---------------- *)
ReaderSend ==
  /\ rpc = "send" /\ rnext <= n /\ Room(qBefore)
  /\ qBefore' = Append(qBefore, rnext)
  /\ rnext' = rnext + 1
  /\ rpc' = IF Cap = 0 THEN "wait" ELSE "send"
  /\ UNCHANGED <<n, tg, out, table, cpc, spc, scur, spend, xpc, xhold, toClose, wpc, received, wtable, qAfter, qT, clBefore, clAfter, clT>>
ReaderUnblock ==
  /\ rpc = "wait" /\ qBefore = <<>>
  /\ rpc' = "send"
  /\ UNCHANGED <<n, tg, out, table, cpc, rnext, spc, scur, spend, xpc, xhold, toClose, wpc, received, wtable, qBefore, qAfter, qT, clBefore, clAfter, clT>>
ReaderClose ==
  /\ rpc = "send" /\ rnext = n + 1
  /\ clBefore' = TRUE /\ rpc' = "closed"
  /\ UNCHANGED <<n, tg, out, table, cpc, rnext, spc, scur, spend, xpc, xhold, toClose, wpc, received, wtable, qBefore, qAfter, qT, clAfter, clT>>

(* ---------------- Snapper: processFeatures (processing.go:22-79) ---------------- *)
SnapperRecv ==
  /\ spc = "recv" /\ qBefore # <<>>
  /\ scur' = Head(qBefore) /\ qBefore' = Tail(qBefore)
  /\ spend' = out[Head(qBefore)]                     \* f(polygon, tmIDs): one wrapper per tile matrix with geometry
  /\ spc' = "send"
  /\ UNCHANGED <<n, tg, out, table, cpc, rnext, rpc, xpc, xhold, toClose, wpc, received, wtable, qAfter, qT, clBefore, clAfter, clT>>
SnapperSend(t) ==
  /\ spc = "send" /\ t \in spend /\ Room(qAfter)
  /\ qAfter' = Append(qAfter, <<scur, t>>)
  /\ spend' = spend \ {t}
  /\ spc' = IF Cap = 0 THEN "wait" ELSE "send"
  /\ UNCHANGED <<n, tg, out, table, cpc, rnext, rpc, scur, xpc, xhold, toClose, wpc, received, wtable, qBefore, qT, clBefore, clAfter, clT>>
SnapperUnblock ==
  /\ spc = "wait" /\ qAfter = <<>>
  /\ spc' = "send"
  /\ UNCHANGED <<n, tg, out, table, cpc, rnext, rpc, scur, spend, xpc, xhold, toClose, wpc, received, wtable, qBefore, qAfter, qT, clBefore, clAfter, clT>>
SnapperNext ==
  /\ spc = "send" /\ spend = {}
  /\ spc' = "recv"
  /\ UNCHANGED <<n, tg, out, table, cpc, rnext, rpc, scur, spend, xpc, xhold, toClose, wpc, received, wtable, qBefore, qAfter, qT, clBefore, clAfter, clT>>
SnapperClose ==                                        \* processing.go:68 close(featuresOut)
  /\ spc = "recv" /\ qBefore = <<>> /\ clBefore
  /\ clAfter' = TRUE /\ spc' = "done"
  /\ UNCHANGED <<n, tg, out, table, cpc, rnext, rpc, scur, spend, xpc, xhold, toClose, wpc, received, wtable, qBefore, qAfter, qT, clBefore, clT>>

(* ---------------- Router: writeFeaturesToTargets (processing.go:81-117) ---------------- *)
RouterRecv ==
  /\ xpc = "recv" /\ qAfter # <<>>
  /\ xhold' = Head(qAfter) /\ qAfter' = Tail(qAfter)
  /\ xpc' = "fwd"
  /\ UNCHANGED <<n, tg, out, table, cpc, rnext, rpc, spc, scur, spend, toClose, wpc, received, wtable, qBefore, qT, clBefore, clAfter, clT>>
RouterForward ==
  /\ xpc = "fwd" /\ Room(qT[xhold[2]]) /\ ~clT[xhold[2]]
  /\ qT' = [qT EXCEPT ![xhold[2]] = Append(@, xhold[1])]
  /\ xpc' = IF Cap = 0 THEN "wait" ELSE "recv"
  /\ UNCHANGED <<n, tg, out, table, cpc, rnext, rpc, spc, scur, spend, xhold, toClose, wpc, received, wtable, qBefore, qAfter, clBefore, clAfter, clT>>
RouterUnblock ==
  /\ xpc = "wait" /\ qT[xhold[2]] = <<>>
  /\ xpc' = "recv"
  /\ UNCHANGED <<n, tg, out, table, cpc, rnext, rpc, spc, scur, spend, xhold, toClose, wpc, received, wtable, qBefore, qAfter, qT, clBefore, clAfter, clT>>
RouterSeesClosed ==
  /\ xpc = "recv" /\ qAfter = <<>> /\ clAfter
  /\ xpc' = "closing"
  /\ UNCHANGED <<n, tg, out, table, cpc, rnext, rpc, spc, scur, spend, xhold, toClose, wpc, received, wtable, qBefore, qAfter, qT, clBefore, clAfter, clT>>
RouterCloseOne(t) ==                                   \* processing.go:110-113, map iteration: any order
  /\ xpc = "closing" /\ t \in toClose
  /\ clT' = [clT EXCEPT ![t] = TRUE] /\ toClose' = toClose \ {t}
  /\ UNCHANGED <<n, tg, out, table, cpc, rnext, rpc, spc, scur, spend, xpc, xhold, wpc, received, wtable, qBefore, qAfter, qT, clBefore, clAfter>>
RouterJoin ==                                          \* processing.go:115 wg.Wait()
  /\ xpc = "closing" /\ toClose = {}
  /\ \A t \in tg : wpc[t] = "done"
  /\ xpc' = "done"
  /\ UNCHANGED <<n, tg, out, table, cpc, rnext, rpc, spc, scur, spend, xhold, toClose, wpc, received, wtable, qBefore, qAfter, qT, clBefore, clAfter, clT>>

(* ---------------- Writers: Target.WriteFeatures ---------------- *)
WriterRecv(t) ==
  /\ wpc[t] = "recv" /\ qT[t] # <<>>
  /\ received' = [received EXCEPT ![t] = Append(@, Head(qT[t]))]
  /\ qT' = [qT EXCEPT ![t] = Tail(@)]
  /\ wtable' = [wtable EXCEPT ![t] = table]            \* a page may be flushed here: it reads target.Table
  /\ UNCHANGED <<n, tg, out, table, cpc, rnext, rpc, spc, scur, spend, xpc, xhold, toClose, wpc, qBefore, qAfter, clBefore, clAfter, clT>>
WriterFinish(t) ==                                     \* channel closed: last flush, then return
  /\ wpc[t] = "recv" /\ qT[t] = <<>> /\ clT[t]
  /\ wpc' = [wpc EXCEPT ![t] = "done"]
  /\ wtable' = [wtable EXCEPT ![t] = table]
  /\ UNCHANGED <<n, tg, out, table, cpc, rnext, rpc, spc, scur, spend, xpc, xhold, toClose, received, qBefore, qAfter, qT, clBefore, clAfter, clT>>

(* ---------------- Caller: ProcessFeatures returns (processing.go:144-153), next table ---------------- *)
Return ==
  /\ cpc = "running" /\ xpc = "done"
  /\ cpc' = IF table = NT THEN "finished" ELSE "idle"
  /\ UNCHANGED <<n, tg, out, table, rnext, rpc, spc, scur, spend, xpc, xhold, toClose, wpc, received, wtable, qBefore, qAfter, qT, clBefore, clAfter, clT>>

Finished == cpc = "finished" /\ UNCHANGED vars     \* the job is over (keeps TLC's deadlock check meaningful)

Next ==
  \/ Finished
  \/ StartRun \/ ReaderSend \/ ReaderUnblock \/ ReaderClose
  \/ SnapperRecv \/ (\E t \in Targets : SnapperSend(t)) \/ SnapperUnblock \/ SnapperNext \/ SnapperClose
  \/ RouterRecv \/ RouterForward \/ RouterUnblock \/ RouterSeesClosed \/ (\E t \in Targets : RouterCloseOne(t)) \/ RouterJoin
  \/ (\E t \in Targets : WriterRecv(t) \/ WriterFinish(t))
  \/ Return

Fairness == WF_vars(Next)
Spec == Init /\ [][Next]_vars /\ WF_vars(StartRun) /\ WF_vars(ReaderSend) /\ WF_vars(ReaderUnblock) /\ WF_vars(ReaderClose)
             /\ WF_vars(SnapperRecv) /\ (\A t \in Targets : WF_vars(SnapperSend(t))) /\ WF_vars(SnapperUnblock)
             /\ WF_vars(SnapperNext) /\ WF_vars(SnapperClose)
             /\ WF_vars(RouterRecv) /\ WF_vars(RouterForward) /\ WF_vars(RouterUnblock) /\ WF_vars(RouterSeesClosed)
             /\ (\A t \in Targets : WF_vars(RouterCloseOne(t))) /\ WF_vars(RouterJoin)
             /\ (\A t \in Targets : WF_vars(WriterRecv(t)) /\ WF_vars(WriterFinish(t)))
             /\ WF_vars(Return)

(* ---------------- properties ---------------- *)
Returned == cpc \in {"idle", "finished"} /\ table > 0

TypeOK == /\ rnext \in 1..(N + 1) /\ table \in 0..NT
          /\ \A t \in Targets : Len(received[t]) <= N

(* C10: in source order, exactly once, to the right target, nothing else *)
C10_Prefix == table > 0 => \A t \in tg : IsPrefix(received[t], Expected(t))
C10_AtReturn == Returned => \A t \in tg : received[t] = Expected(t)

(* C11: return only after every target is done; nobody left behind *)
C11_ReturnAfterDone == Returned => /\ \A t \in tg : wpc[t] = "done"
                                   /\ rpc = "closed" /\ spc = "done" /\ xpc = "done"
                                   /\ qBefore = <<>> /\ qAfter = <<>> /\ \A t \in Targets : qT[t] = <<>>
(* the caller re-assigns Table only while no writer is active, and a writer always writes under the table of its run *)
C11_TableStable == [][table' # table => \A t \in Targets : wpc[t] \in {"off", "done"}]_vars
C11_WriterTable == \A t \in Targets : wpc[t] \in {"recv", "done"} => (wtable[t] \in {0, table} \/ received[t] = <<>>)
NoSendOnClosed == /\ (clBefore => rpc = "closed") /\ (clAfter => spc = "done")
                  /\ \A t \in Targets : clT[t] => xpc \in {"closing", "done"}

(* ---------------- the counting skeleton (PipelineInt.tla): this machine refines it ---------------- *)
Taken == (rnext - 1) - Len(qBefore)                   \* features the snapper has received so far
PI == INSTANCE PipelineInt WITH
        cpc <- IF cpc = "running" THEN "running" ELSE IF table > 0 THEN "returned" ELSE "idle",
        rsent <- rnext - 1, rclosed <- (rpc = "closed"), qB <- Len(qBefore),
        spc <- IF spc \in {"send", "wait"} THEN "send" ELSE IF spc = "done" THEN "done" ELSE "recv",
        chosen <- [t \in Targets |-> Cardinality({i \in 1..Taken : t \in out[i]})],
        qA <- [t \in Targets |-> Cardinality({j \in 1..Len(qAfter) : qAfter[j][2] = t})],
        xpc <- IF xpc \in {"fwd", "closing", "done"} THEN xpc ELSE "recv",
        hold <- IF xpc = "fwd" THEN xhold[2] ELSE 0,
        clT <- {t \in Targets : clT[t]},
        qT <- [t \in Targets |-> Len(qT[t])],
        got <- [t \in Targets |-> Len(received[t])],
        wdone <- {t \in Targets : wpc[t] = "done"}
RefinesInt == PI!Spec
IntInvHolds == PI!IndInv /\ PI!NoSendOnClosed /\ PI!Complete

(* liveness: the whole job terminates (every run returns), under weak fairness of every process *)
C11_Terminates == <>(cpc = "finished")
(* deadlock freedom: TLC's deadlock check is on; the only state without successor is the finished one *)
=============================================================================
