CONSTANTS N = 4  Targets = {1, 2, 3}  Cap = 0  NT = 1  NChoices = {0, 1, 2, 3, 4}  TgChoices = {{1}, {1, 2}, {1, 2, 3}, {2, 3}}
SPECIFICATION SSpec
INVARIANTS Emit C10_Prefix C10_AtReturn C11_ReturnAfterDone
CHECK_DEADLOCK FALSE
