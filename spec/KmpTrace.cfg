SPECIFICATION Spec
INVARIANTS EmitStats NoPanic Conforms
CHECK_DEADLOCK FALSE
