\* D=2: 4x4 pixels, S=4: every segment between in-grid lattice points x 3 hot sets, every level
CONSTANTS S = 4  D = 2  Modes = {"all", "ends", "mix"}
SPECIFICATION Spec
INVARIANTS DescentIsRoute
CHECK_DEADLOCK FALSE
