SPECIFICATION TraceSpec
CONSTRAINT Track
INVARIANTS Conserved Complete
POSTCONDITION TraceAccepted
CHECK_DEADLOCK FALSE
