--------------------------- MODULE TmsJsonTrace ---------------------------
(* C16, code side: each record is what the real decoder / encoder did with one mutated built-in document. *)
EXTENDS TmsJson, Json
Trace == ndJsonDeserialize("tmsjson_trace.ndjson")
VARIABLE l
TInit == l \in 1..Len(Trace) /\ muts = {}
TNext == UNCHANGED <<l, muts>>
TSpec == TInit /\ [][TNext]_<<l, muts>>
R == Trace[l]
MS == {<<R.muts[i].w, R.muts[i].f, R.muts[i].op>> : i \in 1..Len(R.muts)}
AllKnown        == \A mu \in MS : Known(mu)
NeverPanics     == R.outcome # "panic"
MalformedRejected == (AllKnown /\ Class(MS) = "reject" /\ R.applied) => R.outcome = "error"
RoundTrip       == R.outcome = "ok" => (R.rt_equal /\ R.rt_stable)
BuiltinFaithful == MS = {} => (R.outcome = "ok" /\ R.orig_equal)
=============================================================================
