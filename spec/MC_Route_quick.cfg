\* quick: W=2, S=4 (quarter-pixel lattice): 6561 segments x 3 hot sets = 19683 vectors
CONSTANTS S = 4  W = 2  Modes = {"all", "ends", "mixA"}
SPECIFICATION Spec
INVARIANTS EmitVec EndsFirstLast NoDuplicates
CHECK_DEADLOCK FALSE
