\* the code as written: binary alphabet, patterns up to 6 in corpora up to 8 (the smallest deviation needs 6 in 8)
CONSTANTS Alphabet = {0, 1}  MaxFind = 6  MaxCorpus = 8  Variant = "coded"  EmitMax = 7
SPECIFICATION Spec
INVARIANTS IndexSafe TableIsBorder Shape NeverLate DeviationOnlyLong Emit
PROPERTIES Progress
CHECK_DEADLOCK FALSE
