------------------------------ MODULE CliPath ------------------------------
(* Target path naming of the command line tool (C13). A path is a sequence of one-character strings. *)
EXTENDS Integers, Sequences, FiniteSets, TLC

(* ---------------- path naming: main.go:219-224 (path.Split, path.Ext, path.Join) ---------------- *)
LastIndexOf(s, c) == IF \E i \in 1..Len(s) : s[i] = c
                     THEN CHOOSE i \in 1..Len(s) : s[i] = c /\ \A j \in (i + 1)..Len(s) : s[j] # c
                     ELSE 0
DirOf(p)  == SubSeq(p, 1, LastIndexOf(p, "/"))               \* including the trailing slash, possibly empty
FileOf(p) == SubSeq(p, LastIndexOf(p, "/") + 1, Len(p))
ExtOf(f)  == IF LastIndexOf(f, ".") = 0 THEN <<>> ELSE SubSeq(f, LastIndexOf(f, "."), Len(f))
NameOf(f) == SubSeq(f, 1, Len(f) - Len(ExtOf(f)))
Digits(n) == IF n < 10 THEN <<ToString(n)>> ELSE <<ToString(n \div 10), ToString(n % 10)>>   \* ids 0..99
(* "_<id>" is inserted before the extension of the file name; the directory is kept *)
TargetPath(p, id) == DirOf(p) \o NameOf(FileOf(p)) \o <<"_">> \o Digits(id) \o ExtOf(FileOf(p))
(* the paths the property quantifies over: plain directory components, a file name with a non-empty stem *)
SafePath(p) == LET d == DirOf(p)
                   f == FileOf(p)
               IN  /\ Len(f) > 0 /\ NameOf(f) # <<>> /\ f[Len(f)] # "."
                   /\ \A i \in 1..Len(d) : d[i] # "."
                   /\ (Len(d) > 0 => d[1] # "/")
                   /\ \A i \in 1..(Len(d) - 1) : ~(d[i] = "/" /\ d[i + 1] = "/")

=============================================================================
