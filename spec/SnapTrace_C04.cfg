CONSTANTS S = 4  Stride = 16  GroupMax = 14  MaxRun = 12
SPECIFICATION Spec
INVARIANTS EmitStats ProjectionExact C04_VerticesAreCentres C04_EdgesNearInput C04_Coverage
CHECK_DEADLOCK FALSE
