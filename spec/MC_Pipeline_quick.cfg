\* quick: 2 features x 2 targets, unbuffered channels, 2 tables in sequence; all 16 outcome maps per run
CONSTANTS N = 2  Targets = {1, 2}  Cap = 0  NT = 2  NChoices = {0, 2}  TgChoices = {{1, 2}}
SPECIFICATION Spec
INVARIANTS TypeOK C10_Prefix C10_AtReturn C11_ReturnAfterDone C11_WriterTable NoSendOnClosed IntInvHolds
PROPERTIES C11_TableStable C11_Terminates RefinesInt
