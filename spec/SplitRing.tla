------------------------------ MODULE SplitRing ------------------------------
(***************************************************************************)
(* snap.splitRing (snap.go:452-547) as the CODE does it: the walk over the *)
(* routed ring with a stack of partial rings, cutting wherever the ring    *)
(* passes a vertex the point index recorded as "hit more than once", the   *)
(* closing of partial rings by prepending older partials, the guard        *)
(* panicPartialRingsRemainingOnStack (an anchor of C06) and the            *)
(* classification of the complete rings by winding order - next to the     *)
(* reference PeelLoops of Snap.tla.                                        *)
(*                                                                         *)
(* Rings are sequences of labels; label n is the n-th corner of a convex   *)
(* pentagon, so orientations are exact.  TLC enumerates every closed label *)
(* sequence up to MaxLen over Labels without equal neighbours, with the    *)
(* hit-multiple set equal to the labels the ring really repeats or any     *)
(* superset of them (the index records hits of the ring BEFORE the spike   *)
(* removal, so it may name vertices the cleaned ring passes only once).    *)
(* Every input is replayed through the real splitRing (SplitRingTrace).    *)
(***************************************************************************)
EXTENDS Integers, Sequences, FiniteSets, TLC, Json, RingOps

Corner == <<<<0, 0>>, <<4, 0>>, <<6, 3>>, <<3, 6>>, <<0, 4>>>>      \* label n (0-based) -> point
Pt(n) == Corner[n + 1]
Pts(r) == [i \in 1..Len(r) |-> Pt(r[i])]

(* ---------------- the stack: an ordered map idx -> partial ring, in insertion order ---------------- *)
Has(st, k) == \E i \in 1..Len(st) : st[i].k = k
Val(st, k) == IF Has(st, k) THEN st[CHOOSE i \in 1..Len(st) : st[i].k = k].v ELSE <<>>         \* stack.Value: nil if absent
SetK(st, k, v) == IF Has(st, k) THEN [i \in 1..Len(st) |-> IF st[i].k = k THEN [k |-> k, v |-> v] ELSE st[i]]
                  ELSE Append(st, [k |-> k, v |-> v])
DelK(st, ks) == SelectSeq(st, LAMBDA e : e.k \notin ks)

(* keep prepending partial rings from the stack (second newest backwards) until tempRing closes or one does not connect *)
RECURSIVE Prepend(_, _, _, _, _)
Prepend(st, pos, temp, toRemove, done) ==
  \* returns [st, done]; pos: position in st being looked at (descending); done: set of <<key, ring>> completed
  IF pos < 1 THEN [st |-> st, done |-> done]
  ELSE LET e == st[pos]
       IN  IF Last(e.v) # temp[1] THEN [st |-> st, done |-> done]                                \* does not connect: stop, nothing removed
           ELSE LET temp2 == e.v \o Tail(temp)
                    rem2 == toRemove \cup {e.k}
                IN  IF temp2[1] = Last(temp2)
                    THEN [st |-> DelK(st, rem2), done |-> done \cup {<<e.k, Front(temp2)>>}]
                    ELSE Prepend(st, pos - 1, temp2, rem2, done)

(* one iteration of the loop over checkRing; state [p, st, done, panic] *)
Step(check, HM, i, s) ==          \* i: 0-based vertexIdx
  LET vertex == check[i + 1]
      last == i = Len(check) - 1
      plain == i = 0 \/ vertex \notin HM
      st1 == IF plain THEN (IF ~Has(s.st, s.p) THEN SetK(s.st, s.p, <<>>) ELSE SetK(s.st, s.p, Append(Val(s.st, s.p), vertex)))
             ELSE SetK(s.st, s.p, Append(Val(s.st, s.p), vertex))
  IN  IF plain /\ ~last THEN [s EXCEPT !.st = st1]                                               \* continue
      ELSE LET temp == Val(st1, s.p)
               r == IF temp = <<>> THEN [st |-> st1, done |-> s.done, oob |-> TRUE]              \* tempRing[0] on an empty slice
                    ELSE IF temp[1] = Last(temp)
                         THEN [st |-> DelK(st1, {s.p}), done |-> s.done \cup {<<s.p, Front(temp)>>}, oob |-> FALSE]
                         ELSE LET q == Prepend(st1, Len(st1) - 1, temp, {s.p}, s.done) IN [st |-> q.st, done |-> q.done, oob |-> FALSE]
           IN  IF r.oob THEN [s EXCEPT !.panic = "index out of range"]
               ELSE IF ~last THEN [p |-> s.p + 1, st |-> SetK(r.st, s.p + 1, Append(Val(r.st, s.p + 1), vertex)), done |-> r.done, panic |-> s.panic]
               ELSE [p |-> s.p, st |-> r.st, done |-> r.done, panic |-> IF Len(r.st) > 0 THEN "partial rings remaining on stack" ELSE s.panic]
RECURSIVE Walk(_, _, _, _)
Walk(check, HM, i, s) == IF i >= Len(check) \/ s.panic # "" THEN s ELSE Walk(check, HM, i + 1, Step(check, HM, i, s))
(* the complete rings in the order of their keys *)
SortedRings(done) ==
  LET RECURSIVE Take(_)
      Take(S) == IF S = {} THEN <<>> ELSE LET m == CHOOSE x \in S : \A y \in S : x[1] <= y[1] IN <<m[2]>> \o Take(S \ {m})
  IN  Take(done)
CodeLoops(ring, HM) ==
  LET s == Walk(Append(ring, ring[1]), HM, 0, [p |-> 0, st |-> <<[k |-> 0, v |-> <<>>]>>, done |-> {}, panic |-> ""])
  IN  [panic |-> s.panic, loops |-> IF s.panic = "" THEN SortedRings(s.done) ELSE <<>>]
(* snap.go:515-546: classification *)
Classify(loops, isOuter) ==
  LET big    == SelectSeq(loops, LAMBDA L : Len(L) >= 3)
      small  == SelectSeq(loops, LAMBDA L : Len(L) < 3)
      Ori(L) == Orientation(Pts(L))
      asOut  == SelectSeq(big, LAMBDA L : IF isOuter THEN Ori(L) >= 0 ELSE Ori(L) > 0)
      asIn   == SelectSeq(big, LAMBDA L : IF isOuter THEN Ori(L) < 0 ELSE Ori(L) <= 0)
      RevAll(ss) == [i \in 1..Len(ss) |-> Reverse(ss[i])]
  IN  IF isOuter /\ asOut = <<>> /\ asIn # <<>> THEN [o |-> RevAll(asIn), i |-> <<>>, p |-> small]
      ELSE IF ~isOuter /\ asIn = <<>> /\ asOut # <<>> THEN [o |-> <<>>, i |-> RevAll(asOut), p |-> small]
      ELSE [o |-> asOut, i |-> asIn, p |-> small]
CodeSplit(ring, isOuter, HM) == LET c == CodeLoops(ring, HM) IN
                                  IF c.panic # "" THEN [panic |-> c.panic, o |-> <<>>, i |-> <<>>, p |-> <<>>]
                                  ELSE [panic |-> ""] @@ Classify(c.loops, isOuter)

(* ---------------- what is asked of a split ---------------- *)
Repeated(ring) == {v \in SeqToSet(ring) : Cardinality({i \in 1..Len(ring) : ring[i] = v}) >= 2}
DirEdges(r) == [e \in (SeqToSet(r) \X SeqToSet(r)) |-> Cardinality({i \in 1..Len(r) : r[i] = e[1] /\ r[(i % Len(r)) + 1] = e[2]})]
EdgeCount(loops, e) == LET RECURSIVE Sum(_)
                           Sum(k) == IF k = 0 THEN 0
                                     ELSE Sum(k - 1) + (IF Len(loops[k]) >= 2 THEN Cardinality({i \in 1..Len(loops[k]) : loops[k][i] = e[1] /\ loops[k][(i % Len(loops[k])) + 1] = e[2]}) ELSE 0)
                       IN  Sum(Len(loops))
(* every directed edge of the ring is in exactly as many loops as it occurs in the ring (nothing invented, nothing lost) *)
Conserves(ring, loops) == \A a, b \in SeqToSet(ring) : a # b => EdgeCount(loops, <<a, b>>) = DirEdges(ring)[<<a, b>>]
LoopsSimple(loops) == \A k \in 1..Len(loops) : Distinct(loops[k])

(* ---------------- the enumeration (built up label by label so that TLC's workers share it) ---------------- *)
CONSTANTS Labels, MaxLen
VARIABLES ring, hm, phase
Init == ring = <<>> /\ hm = {} /\ phase = "grow"
Grow == /\ phase = "grow" /\ Len(ring) < MaxLen
        /\ \E l \in Labels : (IF Len(ring) = 0 THEN TRUE ELSE ring[Len(ring)] # l) /\ ring' = Append(ring, l)
        /\ UNCHANGED <<hm, phase>>
Pick == /\ phase = "grow" /\ Len(ring) >= 3 /\ ring[1] # ring[Len(ring)]
        /\ \E extra \in SUBSET (SeqToSet(ring) \ Repeated(ring)) : hm' = Repeated(ring) \cup extra
        /\ phase' = "ready" /\ UNCHANGED ring
Next == Grow \/ Pick
Spec == Init /\ [][Next]_<<ring, hm, phase>>

Ready == phase = "ready"
Res == CodeLoops(ring, hm)
(* C06: the guard is never reached when the index names at least the vertices the ring repeats *)
NoPanic == Ready => Res.panic = ""
ConservesEdges == (Ready /\ Res.panic = "") => Conserves(ring, Res.loops)
SimpleLoops == (Ready /\ Res.panic = "") => LoopsSimple(Res.loops)
Emit == Ready => PrintT(<<"VEC", ToJson([ring |-> ring, hm |-> SetToSeq(hm)])>>)
=============================================================================
