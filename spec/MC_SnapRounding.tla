-------------------------- MODULE MC_SnapRounding --------------------------
(***************************************************************************)
(* Design theorem behind C01 (checked exhaustively in a small window):     *)
(* SNAP ROUNDING PRESERVES NON-CROSSING.  Take two segments of the window  *)
(* lattice that do not cross properly and do not overlap collinearly, and  *)
(* a hot set that contains the pixels of their four endpoints (as in       *)
(* SnapPolygon, where every vertex is inserted before any edge is routed)  *)
(* plus optionally one more pixel.  Route both through the hot pixels      *)
(* (Grid!Route) and join the pixel centres: no edge of one routed polyline *)
(* crosses an edge of the other properly.                                  *)
(* This is why "each edge is routed through exactly the hot pixels it      *)
(* meets" (C02) implies "no crossing edges" (C01) for the routed boundary; *)
(* the later stages (spike removal, splitting) only remove or regroup.     *)
(***************************************************************************)
EXTENDS Grid, RingOps
CONSTANT W
Lat == 0..(W * S)
Pts == Lat \X Lat
Pixels == {<<i, j>> : i, j \in 0..W}
VARIABLES a, b, c, d, x
vars == <<a, b, c, d, x>>
Init == a \in Pts /\ b = a /\ c = a /\ d = a /\ x = <<0, 0>>
Next == /\ b = a /\ c = a                    \* second step chooses the rest (parallel evaluation by the workers)
        /\ a' = a /\ b' \in Pts /\ c' \in Pts /\ d' \in Pts /\ x' \in Pixels
        /\ b' # a /\ c' # d'
Spec == Init /\ [][Next]_vars
Compatible == /\ ~ProperCross(a, b, c, d)
              /\ ~(Cross(a, b, c) = 0 /\ Cross(a, b, d) = 0)                        \* not collinear (no overlap)
hot == {PixOf(a), PixOf(b), PixOf(c), PixOf(d), x}
Poly(r) == [i \in 1..Len(r) |-> Centre(r[i])]
EdgesOfPath(p) == {<<p[i], p[i + 1]>> : i \in 1..(Len(p) - 1)}
RoutedDoNotCross ==
  (b # a /\ c # d /\ Compatible) =>
     LET p == Poly(Route(a, b, hot))
         q == Poly(Route(c, d, hot))
     IN  \A e \in EdgesOfPath(p), f \in EdgesOfPath(q) : ~ProperCross(e[1], e[2], f[1], f[2])
=============================================================================
