\* three labels (no two equal neighbours is the realistic case for routed chains): patterns up to 4 in corpora up to 7: exact
CONSTANTS Alphabet = {0, 1, 2}  MaxFind = 4  MaxCorpus = 7  Variant = "coded"  EmitMax = 5
SPECIFICATION Spec
INVARIANTS IndexSafe TableIsBorder Shape NeverLate Exact Emit
PROPERTIES Progress
CHECK_DEADLOCK FALSE
