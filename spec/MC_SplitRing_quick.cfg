CONSTANTS Labels = {0, 1, 2, 3}  MaxLen = 7
SPECIFICATION Spec
INVARIANTS NoPanic ConservesEdges SimpleLoops Emit
CHECK_DEADLOCK FALSE
