CONSTANTS S = 4  Stride = 16  GroupMax = 14  MaxRun = 12
SPECIFICATION Spec
INVARIANTS EmitStats ProjectionExact C04_VerticesAreCentres
CHECK_DEADLOCK FALSE
