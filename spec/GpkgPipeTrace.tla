--------------------------- MODULE GpkgPipeTrace ---------------------------
(***************************************************************************)
(* C11 (last sentence) / C10 with the REAL GeoPackage source and targets:  *)
(* the whole pipeline run from a race-detector build.  One record per run: *)
(* rows per target, rows whose geometry is the one computed for ANOTHER    *)
(* tile matrix, rows out of source order, and the number of data races the *)
(* Go race detector reported.                                              *)
(***************************************************************************)
EXTENDS Integers, Sequences, FiniteSets, TLC, Json
Trace == ndJsonDeserialize("gpkgpipe_trace.ndjson")
VARIABLE l
Init == l \in 1..Len(Trace)
Next == UNCHANGED l
Spec == Init /\ [][Next]_l
R == Trace[l]
(* a run whose source faults while it is read (fault > 0) may abort; what it may not do is report success with features missing *)
Finished         == R.fault > 0 \/ R.status = "ok"                                    \* the run returned (no crash, no hang)
NoDataRace       == R.races = 0
EveryRowArrived  == R.status = "ok" => /\ \A i \in 1..Len(R.rows) : R.rows[i] = R.expected
                                       /\ \A i \in 1..Len(R.other_rows) : R.other_rows[i] = R.other_expected
FaultNotSilent   == (R.fault > 0 /\ R.status = "ok") => \A i \in 1..Len(R.fault_rows) : R.fault_rows[i] = R.fault_expected
OwnGeometryOnly  == R.status = "ok" => R.wrong_geom = 0
SourceOrder      == R.status = "ok" => R.disorder = 0
=============================================================================
