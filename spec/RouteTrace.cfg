CONSTANTS S = 4
SPECIFICATION Spec
INVARIANTS NoPanic CentresExact RouteIsExact
CHECK_DEADLOCK FALSE
