------------------------------- MODULE Paging -------------------------------
(***************************************************************************)
(* The paged writer of a target GeoPackage                                 *)
(* (processing/gpkg/gpkg.go: WriteFeatures / writeFeatures), C12.          *)
(* It refines Pipeline!Writer[t]: WriterRecv = Recv (+ FlushFull),         *)
(* WriterFinish = FlushFinal.                                              *)
(* A feature is its index; Empty is the set of features with an empty      *)
(* geometry; Box[i] is the integer bounding box of feature i.              *)
(***************************************************************************)
EXTENDS Integers, Sequences, FiniteSets

CONSTANTS MaxCount, MaxP      \* bounds of the exhaustive model
VARIABLES P,        \* page size (>= 1)
          count,    \* number of features that will be handed over
          Empty,    \* SUBSET 1..count
          sent,     \* features handed over so far
          buffer,   \* features received but not yet written (gpkg.go:206)
          rows,     \* committed rows, in order
          rtree,    \* row ids in the spatial index
          txs,      \* committed transactions
          pc        \* "recv" | "flush" | "done"
vars == <<P, count, Empty, sent, buffer, rows, rtree, txs, pc>>

Init == /\ P \in 1..MaxP /\ count \in 0..MaxCount /\ Empty \in SUBSET (1..count)
        /\ sent = 0 /\ buffer = <<>> /\ rows = <<>> /\ rtree = {} /\ txs = 0 /\ pc = "recv"

Write(feats) == /\ rows' = rows \o feats                                  \* one transaction (gpkg.go:223-265)
                /\ rtree' = rtree \cup {feats[i] : i \in {k \in 1..Len(feats) : feats[k] \notin Empty}}
                /\ txs' = txs + 1

Recv == /\ pc = "recv" /\ sent < count
        /\ sent' = sent + 1 /\ buffer' = Append(buffer, sent + 1)
        /\ pc' = IF Len(buffer') % P = 0 THEN "flush" ELSE "recv"            \* gpkg.go:216
        /\ UNCHANGED <<P, count, Empty, rows, rtree, txs>>
FlushFull == /\ pc = "flush"
             /\ Write(buffer) /\ buffer' = <<>> /\ pc' = "recv"
             /\ UNCHANGED <<P, count, Empty, sent>>
FlushFinal == /\ pc = "recv" /\ sent = count                               \* channel closed: gpkg.go:210-213, always writes
              /\ Write(buffer) /\ buffer' = <<>> /\ pc' = "done"
              /\ UNCHANGED <<P, count, Empty, sent>>
Done == pc = "done" /\ UNCHANGED vars
Next == Recv \/ FlushFull \/ FlushFinal \/ Done
Spec == Init /\ [][Next]_vars /\ WF_vars(Next)

Iota(k) == [i \in 1..k |-> i]
(* nothing lost, nothing duplicated, order kept, at every moment *)
Conserved    == rows \o buffer = Iota(sent)
BufferBelowP == pc = "recv" => Len(buffer) < P
PagesFull    == pc # "done" => Len(rows) % P = 0
(* C12 at the end *)
Complete     == pc = "done" => /\ rows = Iota(count)
                               /\ rtree = (1..count) \ Empty
                               /\ txs = (count \div P) + 1
Terminates   == <>(pc = "done")
SmallEmpty == Empty \subseteq 1..3    \* model bound only: empty geometries among the first three features
(* the counting skeleton (PagingInt.tla), whose inductive invariant Apalache proves for every page size and count *)
PI == INSTANCE PagingInt WITH nrows <- Len(rows), buf <- Len(buffer)
RefinesInt == PI!Spec
IntInvHolds == PI!IndInv
(* the committed row count after k features have been fully processed *)
Committed(k, p) == p * (k \div p)
CommittedOK == pc = "recv" => Len(rows) = Committed(sent, P)
=============================================================================
