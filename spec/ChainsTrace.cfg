SPECIFICATION Spec
INVARIANTS NoPanic OnlyLabelsOfInput NeverLonger NoInventedAdjacency
CHECK_DEADLOCK FALSE
