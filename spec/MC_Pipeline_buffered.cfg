\* buffered refactoring: capacity 2, 3 features x 2 targets, 2 tables
CONSTANTS N = 3  Targets = {1, 2}  Cap = 2  NT = 2  NChoices = {1, 3}  TgChoices = {{1, 2}}
SPECIFICATION Spec
INVARIANTS TypeOK C10_Prefix C10_AtReturn C11_ReturnAfterDone C11_WriterTable NoSendOnClosed IntInvHolds
PROPERTIES C11_TableStable C11_Terminates RefinesInt
