\* exhaustive: x over all words with <= 2 bits of 0..31 (529), y over all words with <= 1 bit (33): 17457 initial states
SPECIFICATION Spec
INVARIANTS KeyIsInterleave RoundTrip ParentIsShift ChildrenOK OperatorForm StageLinear EmitVec
CHECK_DEADLOCK FALSE
