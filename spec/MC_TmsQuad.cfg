\* every single-field perturbation at every level of an accepted 5-level set
CONSTANTS Depth = 5
SPECIFICATION Spec
INVARIANTS BaseAccepted BrokenRejected CodeMatchesProperty
CHECK_DEADLOCK FALSE
