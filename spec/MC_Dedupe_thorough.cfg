CONSTANTS Labels = {0, 1, 2, 3, 4}  MaxLen = 9
SPECIFICATION Spec
INVARIANTS NoPanic NeverLonger OnlyLabelsOfInput InventsOnlyBeyondTwice Emit
CHECK_DEADLOCK FALSE
