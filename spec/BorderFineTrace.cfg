SPECIFICATION Spec
INVARIANTS NeverSnapped RejectedAsSpecified
CHECK_DEADLOCK FALSE
