SPECIFICATION Spec
INVARIANTS ExitStatus ValidationGate FileSet Content DeviationReported NoLibPanicOnSuccess
CHECK_DEADLOCK FALSE
