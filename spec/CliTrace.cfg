SPECIFICATION Spec
INVARIANTS ExitStatus ValidationGate FileSet Content NoLibPanicOnSuccess
CHECK_DEADLOCK FALSE
