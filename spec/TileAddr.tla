------------------------------ MODULE TileAddr ------------------------------
(***************************************************************************)
(* Tile addressing of a tile matrix (tms20.go: FromNative, ToNative,       *)
(* MatrixBoundingBox), C15, as an integer model: tile size T (in units of  *)
(* a quarter tile = 1, so T = 4), origin (Ox, Oy), matrix W x H, corner of *)
(* origin topLeft or bottomLeft; everything in x,y order.                  *)
(***************************************************************************)
EXTENDS Integers, Sequences, FiniteSets, TLC
T == 4
(* top-left corner of tile (x, y) *)
ToNative(W, H, corner, Ox, Oy, x, y) ==
  IF x > W \/ y > H THEN <<>>
  ELSE <<Ox + x * T, IF corner = "topLeft" THEN Oy - y * T ELSE Oy + (y + 1) * T>>
(* tile of a point, <<>> if the point is outside the matrix *)
FromNative(W, H, corner, Ox, Oy, px, py) ==
  LET dx == px - Ox
      dy == IF corner = "topLeft" THEN Oy - py ELSE py - Oy
  IN  IF dx < 0 \/ dy < 0 \/ dx \div T >= W \/ dy \div T >= H THEN <<>> ELSE <<dx \div T, dy \div T>>
(* bounding box <<minx, miny, maxx, maxy>> *)
BBox(W, H, corner, Ox, Oy) == IF corner = "topLeft" THEN <<Ox, Oy - H * T, Ox + W * T, Oy>>
                              ELSE <<Ox, Oy, Ox + W * T, Oy + H * T>>

CONSTANTS MaxW, MaxH
VARIABLES W, H, corner, Ox, Oy, x, y, fx, fy
vars == <<W, H, corner, Ox, Oy, x, y, fx, fy>>
Init == /\ W \in 1..MaxW /\ H \in 1..MaxH /\ corner \in {"topLeft", "bottomLeft"}
        /\ Ox \in {-8, 0, 5} /\ Oy \in {-8, 0, 5}
        /\ x \in 0..(W - 1) /\ y \in 0..(H - 1) /\ fx \in 1..3 /\ fy \in 1..3
Next == UNCHANGED vars
Spec == Init /\ [][Next]_vars
(* a point strictly inside tile (x,y): quarter fractions of the tile measured from its top-left corner *)
Corner == ToNative(W, H, corner, Ox, Oy, x, y)
Inside == <<Corner[1] + fx, Corner[2] - fy>>
Consistent == FromNative(W, H, corner, Ox, Oy, Inside[1], Inside[2]) = <<x, y>>
OutsideNoTile == LET b == BBox(W, H, corner, Ox, Oy)
                 IN  /\ FromNative(W, H, corner, Ox, Oy, b[1] - 1, b[2] + 1) = <<>>
                     /\ FromNative(W, H, corner, Ox, Oy, b[3] + 1, b[2] + 1) = <<>>
                     /\ FromNative(W, H, corner, Ox, Oy, b[1] + 1, b[2] - 1) = <<>>
                     /\ FromNative(W, H, corner, Ox, Oy, b[1] + 1, b[4] + 1) = <<>>
BBoxFromCorners == LET b == BBox(W, H, corner, Ox, Oy)
                       c0 == ToNative(W, H, corner, Ox, Oy, 0, 0)
                       c1 == ToNative(W, H, corner, Ox, Oy, W, H)
                   IN  IF corner = "topLeft" THEN b = <<c0[1], c1[2], c1[1], c0[2]>>
                       ELSE b = <<c0[1], c0[2] - T, c1[1], c1[2] - T>>
=============================================================================
