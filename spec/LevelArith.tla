------------------------------ MODULE LevelArith ------------------------------
(***************************************************************************)
(* Integer arithmetic of the point index (pointindex.go:79-198, 134-181),  *)
(* the design lemmas behind C03, C08 and findings F9 / F10:                *)
(*   Span    integer span of the extent (units of 1e-10 in the code)       *)
(*   D       deepest level; Res(D) = Span \div 2^D  (truncating)           *)
(*   a level-l pixel has integer span 2^(D-l) * Res(D), its centre is      *)
(*   min + x * span + span \div 2                                          *)
(* The ideal grid has pixel size Span / 2^l exactly.                       *)
(***************************************************************************)
EXTENDS Integers, FiniteSets, TLC
P2(k) == 2 ^ k
Res(Span, D)        == Span \div P2(D)
PixSpan(Span, D, l) == P2(D - l) * Res(Span, D)
Centre(Span, D, l, x) == x * PixSpan(Span, D, l) + PixSpan(Span, D, l) \div 2          \* relative to the extent's minimum
Deviation(Span, D)  == Span - Res(Span, D) * P2(D)                                    \* what DeviationStats reports (units)
(* level used for tile matrix z with tile width tw: z + log2(tw) + log2(16) *)
Log2(n) == CHOOSE k \in 0..12 : P2(k) = n
Level(z, tw) == z + Log2(tw) + 4
(* deepest pixel address of an ordinate p (relative to the minimum), floor division; address at level l *)
Addr(Span, D, p)    == p \div Res(Span, D)
AddrAt(Span, D, l, p) == Addr(Span, D, p) \div P2(D - l)
Accepted(Span, D, p) == 0 <= p /\ Addr(Span, D, p) <= P2(D) - 1

VARIABLES Span, D, l, x
vars == <<Span, D, l, x>>
CONSTANTS MaxSpan, MaxD
Init == /\ D \in 1..MaxD /\ Span \in P2(D)..MaxSpan /\ l \in 0..D /\ x \in 0..(P2(l) - 1)
Next == UNCHANGED vars
Spec == Init /\ [][Next]_vars

(* Lemma 1 (C03): a centre of the code's grid is never farther from the ideal centre than the reported deviation.   *)
(* Scaled by 2^(l+1): ideal centre = (2x+1) * Span / 2^(l+1).                                                       *)
Abs(v) == IF v < 0 THEN -v ELSE v
CentreWithinDeviation ==
  Abs(Centre(Span, D, l, x) * P2(l + 1) - (2 * x + 1) * Span) <= (Deviation(Span, D) + 1) * P2(l + 1)
(* Lemma 2 (C08): if the extent divides evenly at the deepest level, the pixels of level l do not depend on which     *)
(* deeper level the index was built for.                                                                             *)
RoundIsLevelLocal ==
  (Span % P2(D) = 0) => \A D2 \in l..D : (Span % P2(D2) = 0) =>
        /\ PixSpan(Span, D2, l) = PixSpan(Span, D, l)
        /\ Centre(Span, D2, l, x) = Centre(Span, D, l, x)
(* ... and on such a grid the code's grid IS the ideal grid *)
RoundIsExact == (Span % P2(D) = 0) => (Deviation(Span, D) = 0 /\ PixSpan(Span, D, l) * P2(l) = Span)
(* Lemma 3 (C09 / F10): every ordinate of the half-open extent is accepted iff the extent divides evenly; otherwise    *)
(* exactly the ordinates in the last Deviation units are refused although they are inside.                            *)
AcceptedBand == \A p \in 0..(Span - 1) : Accepted(Span, D, p) <=> p < Span - Deviation(Span, D)
(* the address at level l is the address of the pixel that contains p in the code's grid *)
AddrIsPixel == \A p \in {0, Span \div 3, Span \div 2, Span - Deviation(Span, D) - 1} :
                  (p >= 0 /\ Accepted(Span, D, p)) =>
                     LET k == AddrAt(Span, D, l, p) IN k * PixSpan(Span, D, l) <= p /\ p < (k + 1) * PixSpan(Span, D, l)
(* Lemma 4 (C03 / C14): with cell sizes halving exactly, the pixel of the level used for tile matrix z is cell(z)/16 *)
LevelFormula == \A tw \in {1, 2, 4, 16} : \A z \in 0..2 :
                  LET cell0 == 16 * P2(3) * 5                 \* any cell size divisible by 16 * 2^z
                      span  == cell0 * tw
                      L     == Level(z, tw)
                  IN  span % P2(L) = 0 /\ 16 * (span \div P2(L)) * P2(z) = cell0
=============================================================================
