SPECIFICATION Spec
INVARIANTS KeyOK NetworkOK OkFlagOK RoundTripOK LinearOK ParentOK KidsOK KidsEncodableOK MustOK DecodeOK
CHECK_DEADLOCK FALSE
