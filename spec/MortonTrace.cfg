SPECIFICATION Spec
INVARIANTS KeyOK NetworkOK OkFlagOK RoundTripOK LinearOK ParentOK KidsOK KidsEncodableOK MustOK DeepOK DecodeOK
CHECK_DEADLOCK FALSE
