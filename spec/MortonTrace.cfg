SPECIFICATION Spec
INVARIANTS KeyOK NetworkOK OkFlagOK RoundTripOK LinearOK ParentOK KidsOK DecodeOK
CHECK_DEADLOCK FALSE
