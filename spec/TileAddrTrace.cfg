SPECIFICATION Spec
INVARIANTS InsideFindsItsTile OutsideFindsNoTile CornerWhereDocumentSays BBoxSpansCorners TileInMatrix MatrixIsTheOneNamed
CHECK_DEADLOCK FALSE
