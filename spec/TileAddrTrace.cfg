SPECIFICATION Spec
INVARIANTS InsideFindsItsTile OutsideFindsNoTile CornerWhereDocumentSays BBoxSpansCorners TileInMatrix
CHECK_DEADLOCK FALSE
