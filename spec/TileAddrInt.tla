----------------------------- MODULE TileAddrInt -----------------------------
(***************************************************************************)
(* TileAddr.tla (C15) without bounds: the tile addressing rules for EVERY  *)
(* matrix size, origin and tile, checked by Apalache                       *)
(*   apalache-mc check --init=Init --inv=Inv --length=0                    *)
(* (Init is "any admissible situation", so Inv at length 0 is the theorem  *)
(* "for all W, H >= 1, all origins, both corner conventions, every tile    *)
(* and every interior point").  Same definitions as TileAddr.tla, written  *)
(* without tuples.  T = 4 quarter-tile units per tile.                     *)
(***************************************************************************)
EXTENDS Integers
T == 4
VARIABLES
  \* @type: Int;
  W,
  \* @type: Int;
  H,
  \* @type: Bool;
  topLeft,
  \* @type: Int;
  Ox,
  \* @type: Int;
  Oy,
  \* @type: Int;
  x,
  \* @type: Int;
  y,
  \* @type: Int;
  fx,
  \* @type: Int;
  fy
Init == /\ W \in Nat /\ W >= 1 /\ H \in Nat /\ H >= 1 /\ topLeft \in BOOLEAN
        /\ Ox \in Int /\ Oy \in Int
        /\ x \in Nat /\ x < W /\ y \in Nat /\ y < H
        /\ fx \in 1..(T - 1) /\ fy \in 1..(T - 1)
Next == UNCHANGED <<W, H, topLeft, Ox, Oy, x, y, fx, fy>>

(* top-left corner of tile (a, b) *)
NatX(a) == Ox + a * T
NatY(b) == IF topLeft THEN Oy - b * T ELSE Oy + (b + 1) * T
(* tile of a point *)
Dx(px) == px - Ox
Dy(py) == IF topLeft THEN Oy - py ELSE py - Oy
Found(px, py) == ~(Dx(px) < 0 \/ Dy(py) < 0 \/ Dx(px) \div T >= W \/ Dy(py) \div T >= H)
TileX(px) == Dx(px) \div T
TileY(py) == Dy(py) \div T
(* bounding box *)
MinX == Ox
MaxX == Ox + W * T
MinY == IF topLeft THEN Oy - H * T ELSE Oy
MaxY == IF topLeft THEN Oy ELSE Oy + H * T

Consistent == LET px == NatX(x) + fx
                  py == NatY(y) - fy
              IN  Found(px, py) /\ TileX(px) = x /\ TileY(py) = y
OutsideNoTile == /\ ~Found(MinX - 1, MinY + 1) /\ ~Found(MaxX + 1, MinY + 1)
                 /\ ~Found(MinX + 1, MinY - 1) /\ ~Found(MinX + 1, MaxY + 1)
BBoxFromCorners == IF topLeft THEN MinX = NatX(0) /\ MinY = NatY(H) /\ MaxX = NatX(W) /\ MaxY = NatY(0)
                   ELSE MinX = NatX(0) /\ MinY = NatY(0) - T /\ MaxX = NatX(W) /\ MaxY = NatY(H) - T
Inv == Consistent /\ OutsideNoTile /\ BBoxFromCorners
=============================================================================
