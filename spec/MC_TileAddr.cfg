\* all matrices up to 4 x 3, both corner conventions, 9 origins, every tile, 9 interior points
CONSTANTS MaxW = 4  MaxH = 3
SPECIFICATION Spec
INVARIANTS Consistent OutsideNoTile BBoxFromCorners
CHECK_DEADLOCK FALSE
