CONSTANTS Depth = 1
SPECIFICATION TSpec
INVARIANTS NeverPanics VerdictMatches PixelSize BinaryAgrees
CHECK_DEADLOCK FALSE
