------------------------------ MODULE KmpTrace ------------------------------
(***************************************************************************)
(* Records of the real kmpSearchAll (driver kmp-run) on the vectors of      *)
(* MC_Kmp and on random longer inputs, one initial state per record.        *)
(* The real function must not panic under its precondition and must return  *)
(* what one of the two modelled variants returns: the code as written       *)
(* ("coded") or the textbook search it was meant to be ("kmp" = TrueAll).   *)
(* Anything else means Kmp.tla no longer represents the code and its design *)
(* results (index safety, progress) do not transfer.                        *)
(***************************************************************************)
EXTENDS Integers, Sequences, TLC, Json
Trace == ndJsonDeserialize("kmp_trace.ndjson")
K == INSTANCE Kmp WITH Alphabet <- {}, MaxFind <- 0, MaxCorpus <- 0, Variant <- "coded", EmitMax <- 0,
                       corpus <- <<>>, find <- <<>>, rest <- <<>>, off <- 0, matches <- <<>>, pc <- "done",
                       tst <- [pos |-> 0], sst <- [r |-> 0]
VARIABLE l
Init == l \in 1..Len(Trace)
Next == UNCHANGED l
Spec == Init /\ [][Next]_l
R == Trace[l]
NoPanic == R.out = "ok"
Conforms == R.out = "ok" => (R.got = K!All("coded", R.corpus, R.find) \/ R.got = K!TrueAll(R.corpus, R.find))
(* statistics for the evidence: how many records exercise the deviation of the code from the textbook search *)
EmitStats == PrintT(<<"VEC", ToJson([l |-> l, deviates |-> (K!All("coded", R.corpus, R.find) # K!TrueAll(R.corpus, R.find)),
                                     textbook |-> (R.out = "ok" /\ R.got = K!TrueAll(R.corpus, R.find))])>>)
=============================================================================
