--------------------------------- MODULE Cli ---------------------------------
(***************************************************************************)
(* The command line tool (main.go), C13: flag plumbing, validation gate,   *)
(* target path naming, overwrite, sequential per-table processing.         *)
(*                                                                         *)
(* A path is a sequence of one-character strings.  A source table is a     *)
(* record [name, kind, lib] where lib[i][k] is the number of polygons the  *)
(* snapping library returns for feature i and the k-th requested tile      *)
(* matrix under the given flags (0 = nothing returned); geometry itself is *)
(* opaque here (the harness compares it with the library's value).         *)
(***************************************************************************)
EXTENDS Integers, Sequences, FiniteSets, SequencesExt, CliPath

(* ---------------- what a run must produce ---------------- *)
(* rows of table t in the target of the k-th requested id: source indices in source order *)
ExpRows(t, k) == IF t.kind = "other" THEN [i \in 1..Len(t.lib) |-> i]
                 ELSE SelectSeq([i \in 1..Len(t.lib) |-> i], LAMBDA i : t.lib[i][k] > 0)
(* geometry class written for feature i: a polygon stays a polygon unless several come back; multipolygons stay multi *)
ExpClass(t, i, k) == IF t.kind = "other" THEN "O"
                     ELSE IF t.kind = "multi" THEN "MP"
                     ELSE IF t.lib[i][k] = 1 THEN "P" ELSE "MP"
(* a run fails (non-zero exit) iff validation rejects the tile matrix set, or some polygon reaches outside the grid
   and ignoring is off (the library panics, C09) *)
MustFail(validTms, anyOutside, iog) == ~validTms \/ (anyOutside /\ ~iog)

(* ---------------- the tool as a state machine (design model MC_Cli) ---------------- *)
CONSTANTS Ids,        \* sequence of requested tile matrix ids
          Tables,     \* sequence of source tables
          ValidTms, AnyOutside
VARIABLES pc, fs, overwrite, iog, cur
(* fs: per target (index in Ids) [state |-> "absent" | "old" | "new", tables |-> ...] *)
vars == <<pc, fs, overwrite, iog, cur>>
TIdx == 1..Len(Ids)

Init == /\ pc = "start" /\ overwrite \in BOOLEAN /\ iog \in BOOLEAN /\ cur = 0
        /\ fs \in [TIdx -> {[state |-> "absent", tables |-> <<>>], [state |-> "old", tables |-> <<>>]}]
        /\ (\E k \in TIdx : fs[k].state = "old") => overwrite          \* scope of the property: old files only with overwrite

Validate == /\ pc = "start"
            /\ pc' = IF ValidTms THEN "init" ELSE "failed"       \* main.go:126-128: before any work
            /\ UNCHANGED <<fs, overwrite, iog, cur>>
InitTargets == /\ pc = "init"                                   \* main.go:150-153, 203-217
               /\ fs' = [k \in TIdx |-> [state |-> "new", tables |-> <<>>]]       \* removed if it existed (overwrite), then created empty
               /\ pc' = "create" /\ UNCHANGED <<overwrite, iog, cur>>
CreateTables == /\ pc = "create"                                \* main.go:155-161
                /\ fs' = [k \in TIdx |-> [state |-> "new", tables |-> [j \in 1..Len(Tables) |-> [name |-> Tables[j].name, rows |-> <<>>]]]]
                /\ pc' = "loop" /\ cur' = 1 /\ UNCHANGED <<overwrite, iog>>
ProcessTable == /\ pc = "loop" /\ cur <= Len(Tables)            \* main.go:170-178: one Pipeline run (Pipeline.tla) per table
                /\ IF AnyOutside /\ ~iog
                   THEN pc' = "failed" /\ UNCHANGED <<fs, cur>>     \* library panics on the first outside polygon
                   ELSE /\ fs' = [k \in TIdx |-> [state |-> "new", tables |-> [j \in 1..Len(Tables) |->
                                   IF j = cur THEN [name |-> Tables[j].name, rows |-> ExpRows(Tables[j], k)]
                                   ELSE fs[k].tables[j]]]]
                        /\ cur' = cur + 1 /\ pc' = "loop"
                /\ UNCHANGED <<overwrite, iog>>
Finish == /\ pc = "loop" /\ cur > Len(Tables) /\ pc' = "done" /\ UNCHANGED <<fs, overwrite, iog, cur>>
Stop == pc \in {"done", "failed"} /\ UNCHANGED vars
Next == Validate \/ InitTargets \/ CreateTables \/ ProcessTable \/ Finish \/ Stop
Spec == Init /\ [][Next]_vars /\ WF_vars(Next)

(* C13 on the design *)
DoneComplete == pc = "done" =>
   \A k \in TIdx : /\ fs[k].state = "new"
                   /\ Len(fs[k].tables) = Len(Tables)
                   /\ \A j \in 1..Len(Tables) : fs[k].tables[j].rows = ExpRows(Tables[j], k)
NothingOldSurvives == pc = "done" => \A k \in TIdx : fs[k].state # "old"
ValidationGate == (~ValidTms /\ pc # "start") => (pc = "failed" /\ \A k \in TIdx : fs[k].state \in {"absent", "old"})
ExitCode == /\ (pc = "done" => ~MustFail(ValidTms, AnyOutside, iog))
            /\ (pc = "failed" => MustFail(ValidTms, AnyOutside, iog))
Terminates == <>(pc \in {"done", "failed"})
=============================================================================
