--------------------------- MODULE PipelineTrace ---------------------------
(***************************************************************************)
(* Trace validation for C10 / C11: event logs of the REAL                  *)
(* processing.ProcessFeatures (fake source, fake targets and a tagged      *)
(* polygon function supplied by the harness) must be behaviours of         *)
(* Pipeline.tla.  Logged events are local steps of the logging process:    *)
(*   Reset      the harness starts a run (its inputs: n, targets, kinds,   *)
(*              what the polygon function will return per feature/part/    *)
(*              target) -- an input description, not an observation        *)
(*   SrcSend i  fake source, immediately BEFORE sending feature i          *)
(*   SrcClose   fake source, immediately BEFORE closing its channel        *)
(*   Snap i p   inside the polygon function, part p of feature i           *)
(*   TgtRecv t i ..  fake target t, AFTER receiving a feature: which       *)
(*              feature, geometry class and tags, attribute check          *)
(*   TgtDone t  fake target t, immediately before WriteFeatures returns    *)
(*   Return     after ProcessFeatures returned (+ leaked goroutines)       *)
(*   Hang / Panic / Crash  facts observed by the harness: never accepted   *)
(* All channel hand-overs, closes and wait-group steps are unlogged spec   *)
(* steps that TLC infers.  Channel capacity is unbounded here, so every    *)
(* behaviour of the unbuffered implementation (and of a buffered           *)
(* refactoring) is a behaviour of this trace specification.                *)
(* Acceptance: the high-water mark of consumed events (TLCSet register 1)  *)
(* must reach the end of the trace.                                        *)
(***************************************************************************)
EXTENDS Integers, Sequences, FiniteSets, SequencesExt, TLC, Json

CONSTANTS N, Targets
Cap == N + 1
NT == 1000000
NChoices == 0..N
TgChoices == SUBSET Targets

VARIABLES n, tg, out, table, cpc, rnext, rpc, spc, scur, spend, xpc, xhold, toClose, wpc, received, wtable,
          qBefore, qAfter, qT, clBefore, clAfter, clT
P == INSTANCE Pipeline

Trace == ndJsonDeserialize("pipe_trace.ndjson")
VARIABLES l,       \* next event to consume
          run,     \* the Reset record of the current run (kinds, parts, counts)
          pl       \* parts of the current multipolygon feature the polygon function has still to be called for
pvars == <<n, tg, out, table, cpc, rnext, rpc, spc, scur, spend, xpc, xhold, toClose, wpc, received, wtable,
           qBefore, qAfter, qT, clBefore, clAfter, clT>>
tvars == <<pvars, l, run, pl>>

Ev == Trace[l]
Is(e) == l <= Len(Trace) /\ Ev.e = e
Consume == l' = l + 1
Silent  == l' = l

SetOf(s) == {s[i] : i \in 1..Len(s)}
(* run.feat[i] = [kind |-> "poly"|"multi"|"other", cnt |-> <<per part: <<count for target 1, ...>> >>] *)
Cnt(i, p, t) == run.feat[i].cnt[p][t]
NParts(i) == Len(run.feat[i].cnt)
RECURSIVE SumParts(_, _, _)
SumParts(i, p, t) == IF p > NParts(i) THEN 0 ELSE Cnt(i, p, t) + SumParts(i, p + 1, t)
OutOf(rec) == [i \in 1..N |-> IF i > rec.n THEN {}
                              ELSE IF rec.feat[i].kind = "other" THEN SetOf(rec.targets)
                              ELSE {t \in SetOf(rec.targets) :
                                      \E p \in 1..Len(rec.feat[i].cnt) : rec.feat[i].cnt[p][t] > 0}]
(* the geometry a target must see for feature i (C10): class and the tags of the polygons, in order *)
RECURSIVE TagsFrom(_, _, _, _)
TagsFrom(i, p, j, t) == IF p > NParts(i) THEN <<>>
                        ELSE IF j > Cnt(i, p, t) THEN TagsFrom(i, p + 1, 1, t)
                        ELSE <<<<i, p, t, j>>>> \o TagsFrom(i, p, j + 1, t)
ExpClass(i, t) == IF run.feat[i].kind = "other" THEN "O"
                  ELSE IF run.feat[i].kind = "multi" THEN "MP"
                  ELSE IF SumParts(i, 1, t) = 1 THEN "P" ELSE "MP"
ExpTags(i, t) == IF run.feat[i].kind = "other" THEN <<>> ELSE TagsFrom(i, 1, 1, t)

ASSUME TLCSet(1, 0)
TraceInit == P!Init /\ tg = {} /\ l = 1 /\ run = [n |-> 0] /\ pl = 0

(* To keep validation linear in the trace length the unlogged steps are composed into deterministic macro steps  *)
(* that fire as early as possible (they have priority over consuming the next event).  With unbounded channels   *)
(* an early hand-over only makes later events enabled earlier, so no behaviour of the implementation is lost:     *)
(*   Deliver(i)  = SnapperRecv . (SnapperSend(t) . RouterRecv . RouterForward) for every t in out[i] . SnapperNext *)
(*   Drain       = SnapperClose . RouterSeesClosed . RouterCloseOne(t) for every target                           *)
(*   TReturn     = RouterJoin . Return                                                                            *)
(* MC_PipelineMacro.cfg checks on the small model that each macro step is such a sequence of Pipeline actions.    *)
Deliver(i) ==
  /\ spc = "recv" /\ qBefore # <<>> /\ Head(qBefore) = i
  /\ qBefore' = Tail(qBefore) /\ scur' = i
  /\ qT' = [t \in Targets |-> IF t \in out[i] THEN Append(qT[t], i) ELSE qT[t]]
  /\ UNCHANGED <<n, tg, out, table, cpc, rnext, rpc, spc, spend, xpc, xhold, toClose, wpc, received, wtable,
                 qAfter, clBefore, clAfter, clT>>
OtherAtHead == spc = "recv" /\ pl = 0 /\ qBefore # <<>> /\ run.feat[Head(qBefore)].kind = "other"
DrainReady  == spc = "recv" /\ pl = 0 /\ qBefore = <<>> /\ clBefore /\ ~clAfter
Normalized  == ~OtherAtHead /\ ~DrainReady

(* ---- silent macro steps (priority) ---- *)
TDeliverOther == OtherAtHead /\ Deliver(Head(qBefore)) /\ Silent /\ UNCHANGED <<run, pl>>
TDrain ==
  /\ DrainReady
  /\ clAfter' = TRUE /\ spc' = "done" /\ xpc' = "closing" /\ toClose' = {}
  /\ clT' = [t \in Targets |-> t \in tg]
  /\ Silent
  /\ UNCHANGED <<n, tg, out, table, cpc, rnext, rpc, scur, spend, xhold, wpc, received, wtable, qBefore, qAfter, qT, clBefore, run, pl>>

(* ---- consuming actions ---- *)
TReset ==
  /\ Is("Reset") /\ cpc \in {"idle", "finished"} \* the previous run (if any) has returned
  /\ Consume /\ run' = Ev /\ pl' = 0
  /\ n' = Ev.n /\ tg' = SetOf(Ev.targets) /\ out' = OutOf(Ev) /\ table' = table + 1
  /\ cpc' = "running"
  /\ rnext' = 1 /\ rpc' = "send" /\ spc' = "recv" /\ scur' = 0 /\ spend' = {}
  /\ xpc' = "recv" /\ xhold' = <<0, 0>> /\ toClose' = SetOf(Ev.targets)
  /\ wpc' = [t \in Targets |-> IF t \in SetOf(Ev.targets) THEN "recv" ELSE "off"]
  /\ received' = [t \in Targets |-> <<>>]
  /\ qBefore' = <<>> /\ qAfter' = <<>> /\ qT' = [t \in Targets |-> <<>>]
  /\ clBefore' = FALSE /\ clAfter' = FALSE /\ clT' = [t \in Targets |-> FALSE]
  /\ UNCHANGED wtable
TSrcSend  == Normalized /\ Is("SrcSend") /\ rnext = Ev.i /\ P!ReaderSend /\ Consume /\ UNCHANGED <<run, pl>>
TSrcClose == Normalized /\ Is("SrcClose") /\ P!ReaderClose /\ Consume /\ UNCHANGED <<run, pl>>
(* the polygon function is called right after a polygon feature was received *)
TSnapFirst == /\ Normalized /\ Is("Snap") /\ Ev.p = 1 /\ Ev.i \in 1..n /\ pl = 0
              /\ run.feat[Ev.i].kind # "other" /\ Ev.ids_ok
              /\ Deliver(Ev.i) /\ pl' = NParts(Ev.i) - 1 /\ Consume /\ UNCHANGED run
TSnapPart  == /\ Is("Snap") /\ pl > 0 /\ scur = Ev.i /\ Ev.p = NParts(Ev.i) - pl + 1 /\ Ev.ids_ok
              /\ pl' = pl - 1 /\ Consume /\ UNCHANGED <<pvars, run>>
TTgtRecv == /\ Normalized /\ Is("TgtRecv") /\ Ev.t \in tg /\ qT[Ev.t] # <<>> /\ Head(qT[Ev.t]) = Ev.i
            /\ Ev.attrs_ok                                   \* original attribute values
            /\ Ev.tmid_ok                                    \* wrapper addressed to this target's tile matrix
            /\ Ev.cls = ExpClass(Ev.i, Ev.t)                 \* polygon / multipolygon / untouched other geometry
            /\ Ev.tags = ExpTags(Ev.i, Ev.t)                 \* only the geometry computed for this target, in order
            /\ (run.feat[Ev.i].kind = "other" => Ev.orig)    \* non-polygon geometry untouched
            /\ P!WriterRecv(Ev.t) /\ Consume /\ UNCHANGED <<run, pl>>
TTgtDone == Normalized /\ Is("TgtDone") /\ Ev.t \in tg /\ P!WriterFinish(Ev.t) /\ Consume /\ UNCHANGED <<run, pl>>
TReturn  == /\ Normalized /\ Is("Return") /\ Ev.leaked = 0 /\ cpc = "running"
            /\ xpc = "closing" /\ toClose = {} /\ \A t \in tg : wpc[t] = "done"       \* RouterJoin
            /\ xpc' = "done" /\ cpc' = "idle" /\ Consume
            /\ UNCHANGED <<n, tg, out, table, rnext, rpc, spc, scur, spend, xhold, toClose, wpc, received, wtable,
                           qBefore, qAfter, qT, clBefore, clAfter, clT, run, pl>>

TraceNext == TReset \/ TSrcSend \/ TSrcClose \/ TSnapFirst \/ TSnapPart \/ TTgtRecv \/ TTgtDone \/ TReturn
             \/ TDeliverOther \/ TDrain
TraceSpec == TraceInit /\ [][TraceNext]_tvars

(* high-water mark *)
Track == TLCSet(1, IF l > TLCGet(1) THEN l ELSE TLCGet(1))
TraceAccepted == IF TLCGet(1) = Len(Trace) + 1 THEN TRUE
                 ELSE PrintT(<<"HWM", TLCGet(1), Len(Trace)>>) /\ FALSE

(* the invariants of the design, evaluated on every state of every explored behaviour *)
C10_Prefix == P!C10_Prefix
C10_AtReturn == P!C10_AtReturn
C11_ReturnAfterDone == P!C11_ReturnAfterDone
=============================================================================
