CONSTANTS Alphabet = {0, 1}  MaxFind = 7  MaxCorpus = 10  Variant = "coded"  EmitMax = 8
SPECIFICATION Spec
INVARIANTS IndexSafe TableIsBorder Shape NeverLate DeviationOnlyLong Emit
PROPERTIES Progress
CHECK_DEADLOCK FALSE
