CONSTANTS N = 40  Targets = {1, 2, 3, 4, 5}
SPECIFICATION TraceSpec
CONSTRAINT Track
INVARIANTS C10_Prefix C10_AtReturn C11_ReturnAfterDone
POSTCONDITION TraceAccepted
CHECK_DEADLOCK FALSE
