----------------------------- MODULE SnapTrace -----------------------------
(***************************************************************************)
(* Trace validation of snap.SnapPolygon (C01, C02 second sentence, C04,    *)
(* C05, C06, C07, C08, C18).                                               *)
(*                                                                         *)
(* Each record of the trace is one call of the real SnapPolygon on a       *)
(* synthetic dyadic grid, projected exactly onto the window lattice:       *)
(* S = 4 lattice units per pixel of the group's finest level; a requested  *)
(* tile matrix that is k levels coarser has pixels of span S * 2^k.        *)
(* The routed boundary ("chain") every property refers to is computed HERE *)
(* from the input polygon with Grid!Route -- it is not taken from the      *)
(* implementation -- and the result the implementation returned is judged  *)
(* against it.  Records of one input (a "group": same polygon with other   *)
(* flags, ring directions, tile-matrix subsets, repeated calls, other      *)
(* processes) are consecutive, and the relational properties compare a     *)
(* record with the later records of its group; whether two records have    *)
(* the same input / flags is decided here, not by the driver.              *)
(***************************************************************************)
EXTENDS Grid, RingOps, Json

CONSTANTS Stride,      \* records are checked in Stride interleaved chains (parallelism only)
          GroupMax,    \* a group has at most this many records
          MaxRun       \* longest straight run of routed edges considered (window diameter in pixels)

Trace == ndJsonDeserialize("snap_trace.ndjson")
N == Len(Trace)

VARIABLE l
Init == l \in 1..(IF N < Stride THEN N ELSE Stride)
Next == l + Stride <= N /\ l' = l + Stride
Spec == Init /\ [][Next]_l

R == Trace[l]
Pow2(k) == IF k = 0 THEN 1 ELSE IF k = 1 THEN 2 ELSE IF k = 2 THEN 4 ELSE IF k = 3 THEN 8 ELSE IF k = 4 THEN 16 ELSE 32
Span(k) == S * Pow2(k)

(* ---------------- projections of a record ---------------- *)
NRings(P)   == Len(P)
Verts(P)    == UNION {SeqToSet(P[r]) : r \in 1..Len(P)}
PixSp(v, sp) == <<v[1] \div sp, v[2] \div sp>>
CentreSp(px, sp) == <<px[1] * sp + sp \div 2, px[2] * sp + sp \div 2>>
HotAt(P, sp) == {PixSp(v, sp) : v \in Verts(P)}
InputEdges(P) == UNION {EdgesOf(P[r]) : r \in 1..Len(P)}

(* snap.go:100-102: shell made counter-clockwise, holes clockwise; colinear rings left as given *)
NormRing(ring, isHole) == LET o == Orientation(ring)
                          IN  IF (isHole /\ o = 1) \/ (~isHole /\ o = -1) THEN Reverse(ring) ELSE ring

(* snap.go:110-120 + 366-380 + 386-389: the routed boundary of one ring as a sequence of pixels *)
RECURSIVE ChainAcc(_, _, _, _, _)
ChainAcc(ring, hot, sp, i, acc) ==
  IF i > Len(ring) THEN acc
  ELSE LET rt  == RouteSp(ring[i], Nxt(ring, i), hot, sp)
           cl  == IF Len(rt) > 1 THEN SubSeq(rt, 1, Len(rt) - 1) ELSE rt
           cl2 == IF Len(acc) > 0 /\ Len(cl) > 0 /\ cl[1] = acc[Len(acc)] THEN Tail(cl) ELSE cl
       IN  ChainAcc(ring, hot, sp, i + 1, acc \o cl2)
ChainPix(ring, hot, sp) == LET c == ChainAcc(ring, hot, sp, 1, <<>>)
                           IN  IF Len(c) > 1 /\ c[1] = c[Len(c)] THEN SubSeq(c, 1, Len(c) - 1) ELSE c
ChainPts(ring, hot, sp) == LET c == ChainPix(ring, hot, sp) IN [i \in 1..Len(c) |-> CentreSp(c[i], sp)]
Chains(P, sp) == LET hot == HotAt(P, sp)
                 IN  [r \in 1..Len(P) |-> ChainPts(NormRing(P[r], r > 1), hot, sp)]

HasRes(Q, z)  == \E i \in 1..Len(Q.res) : Q.res[i].z = z
PolysAt(Q, z) == IF HasRes(Q, z) THEN Q.res[CHOOSE i \in 1..Len(Q.res) : Q.res[i].z = z].polys ELSE <<>>
FpAt(Q, z)    == IF HasRes(Q, z) THEN Q.res[CHOOSE i \in 1..Len(Q.res) : Q.res[i].z = z].fp ELSE ""   \* exact float bit patterns
Requested(Q)  == {Q.lv[i].z : i \in 1..Len(Q.lv)}
Ok == R.out = "ok"
Valid == ValidPolygon(R.poly)

(* the routed boundary runs along the same directed edge a -> b more than once: it winds around the same pixels several
   times in the same direction (a multi-turn spiral thinner than a pixel); the key of known finding F13 *)
RepeatsDirectedEdge(ch) ==
  \E r1, r2 \in 1..Len(ch) : \E i \in 1..Len(ch[r1]) : \E j \in 1..Len(ch[r2]) :
     /\ <<r1, i>> # <<r2, j>> /\ Len(ch[r1]) >= 2 /\ Len(ch[r2]) >= 2
     /\ ch[r1][i] = ch[r2][j]
     /\ ch[r1][(i % Len(ch[r1])) + 1] = ch[r2][(j % Len(ch[r2])) + 1]
     /\ ch[r1][i] # ch[r1][(i % Len(ch[r1])) + 1]
(* the routed boundaries themselves (used to key known findings F5 and F13: they are the arguments of the spike removal) *)
EmitChains == PrintT(<<"VEC", ToJson([l |-> l, lv |-> [i \in 1..Len(R.lv) |->
                        LET ch == Chains(R.poly, Span(R.lv[i].k))
                        IN  [z |-> R.lv[i].z, k |-> R.lv[i].k, rings |-> ch, rep |-> RepeatsDirectedEdge(ch)]]])>>)

(* ---------------- harness sanity ---------------- *)
ProjectionExact == R.exact

(* ---------------- C06: total ---------------- *)
C06_NoPanic == Ok
TimeBoundMs(n) == IF n <= 64 THEN 2000 ELSE 2000 + (n * n * n) \div 100
C06_Time == R.ms <= TimeBoundMs(R.nv)

(* ---------------- C01: no crossing edges ---------------- *)
C01_NoCrossing == (Ok /\ Valid) => \A i \in 1..Len(R.res) : NoCrossing(R.res[i].polys)

(* ---------------- C02, second sentence: non-collapsing polygons are returned as their routed boundary -------- *)
C02_NonCollapsingExact ==
  (Ok /\ Valid) =>
    \A e \in SeqToSet(R.lv) :
      LET sp == Span(e.k)
          ch == Chains(R.poly, sp)
          all == UNION {{<<r, i>> : i \in 1..Len(ch[r])} : r \in 1..Len(ch)}
          nonCollapsing == /\ \A r \in 1..Len(ch) : Len(ch[r]) >= 3
                           /\ \A x, y \in all : x # y => ch[x[1]][x[2]] # ch[y[1]][y[2]]
          ps == PolysAt(R, e.z)
      IN  nonCollapsing =>
            /\ Len(ps) = 1
            /\ Len(ps[1]) = Len(ch)
            /\ \A r \in 1..Len(ch) : IF R.rev THEN CyclicRevEq(ps[1][r], ch[r]) ELSE CyclicEq(ps[1][r], ch[r])

(* ---------------- C04: shape fidelity ---------------- *)
OutVertices(ps) == UNION {SeqToSet(RingAt(ps, pr)) : pr \in RingsOf(ps)}
Dbl(p) == <<2 * p[1], 2 * p[2]>>
C04_VerticesAreCentres ==
  Ok => \A e \in SeqToSet(R.lv) :
          LET sp == Span(e.k)
              cs == {CentreSp(px, sp) : px \in HotAt(R.poly, sp)}
          IN  OutVertices(PolysAt(R, e.z)) \subseteq cs
C04_EdgesNearInput ==
  (Ok /\ Valid) =>
    LET E2 == {<<Dbl(f[1]), Dbl(f[2])>> : f \in InputEdges(R.poly)}      \* everything doubled so mid-points are integral
    IN  \A e \in SeqToSet(R.lv) :
          LET sp == Span(e.k)
          IN  \A oe \in AllEdges(PolysAt(R, e.z)) :
                /\ NearBoundary(E2, Dbl(oe[1]), sp)                         \* half a pixel, doubled
                /\ NearBoundary(E2, <<oe[1][1] + oe[2][1], oe[1][2] + oe[2][2]>>, sp)
CoveredIn(P, s)  == StrictlyInPolygon(P, s)
CoveredOut(ps, s) == \E p \in 1..Len(ps) : InPolygonArea(ps[p], s)
C04_Coverage ==
  (Ok /\ Valid) =>
    LET E == InputEdges(R.poly)
    IN  \A e \in SeqToSet(R.lv) :
          LET sp == Span(e.k)
              h  == sp \div 2
              lo == 0 - 2 * sp
              hi == R.w * S + 2 * sp
              ps == PolysAt(R, e.z)
              Samples == {<<lo + i * h, lo + j * h>> : i, j \in 0..((hi - lo) \div h)}
          IN  \A s \in Samples :
                NearBoundary(E, s, sp) \/ (CoveredIn(R.poly, s) <=> CoveredOut(ps, s))

(* ---------------- C18: moderate collapse without inventing geometry ---------------- *)
Visits(ch, c) == Cardinality({x \in UNION {{<<r, i>> : i \in 1..Len(ch[r])} : r \in 1..Len(ch)} : ch[x[1]][x[2]] = c})
AtMostTwice(ch) == \A c \in UNION {SeqToSet(ch[r]) : r \in 1..Len(ch)} : Visits(ch, c) <= 2
Cyc(c, i) == c[((i - 1) % Len(c)) + 1]
(* p-q is a routed edge of c or a straight monotone run of consecutive routed edges, in either direction *)
IsRunOf(p, q, c) ==
  /\ Len(c) >= 2
  /\ \E i \in 1..Len(c) : \E dir \in {1, -1} : \E k \in 1..(IF Len(c) - 1 < MaxRun THEN Len(c) - 1 ELSE MaxRun) :
        /\ c[i] = p
        /\ Cyc(c, i + dir * k + Len(c) * MaxRun) = q
        /\ \A t \in 1..k :
             LET u == Cyc(c, i + dir * (t - 1) + Len(c) * MaxRun)
                 w == Cyc(c, i + dir * t + Len(c) * MaxRun)
             IN  /\ Cross(p, q, w) = 0
                 /\ Dot(p, q, w) > Dot(p, q, u)              \* strictly forward along p -> q
C18_ExactRegime ==
  (Ok /\ Valid) =>
    \A e \in SeqToSet(R.lv) :
      LET sp == Span(e.k)
          ch == Chains(R.poly, sp)
          ps == PolysAt(R, e.z)
          RECURSIVE SumCh(_)
          SumCh(r) == IF r > Len(ch) THEN 0 ELSE SignedArea2(ch[r]) + SumCh(r + 1)
      IN  AtMostTwice(ch) =>
            /\ \A pr \in RingsOf(ps) :
                 LET ring == RingAt(ps, pr)
                 IN  Len(ring) >= 2 => \A i \in 1..Len(ring) :
                        ring[i] = Nxt(ring, i) \/ \E r \in 1..Len(ch) : IsRunOf(ring[i], Nxt(ring, i), ch[r])
            /\ \A p \in 1..Len(ps) : \A h \in 2..Len(ps[p]) : \A i \in 1..Len(ps[p][h]) :
                 PointInRing(ps[p][1], ps[p][h][i]) >= 0
            /\ TotalArea2(ps) = (IF R.rev THEN 0 - SumCh(1) ELSE SumCh(1))

(* ---------------- statistics for the evidence file / vacuity guard (always true) ---------------- *)
LevelStats(e) == LET sp == Span(e.k)
                     ch == Chains(R.poly, sp)
                     allv == UNION {{<<r, i>> : i \in 1..Len(ch[r])} : r \in 1..Len(ch)}
                     distinct == \A x, y \in allv : x # y => ch[x[1]][x[2]] # ch[y[1]][y[2]]
                 IN  [z |-> e.z, k |-> e.k, present |-> HasRes(R, e.z),
                      noncollapsing |-> (distinct /\ \A r \in 1..Len(ch) : Len(ch[r]) >= 3),
                      atmosttwice |-> AtMostTwice(ch), repeats |-> ~distinct,
                      npolys |-> Len(PolysAt(R, e.z))]
EmitStats == PrintT(<<"VEC", ToJson([l |-> l, valid |-> Valid, ok |-> Ok,
                                     lv |-> [i \in 1..Len(R.lv) |-> LevelStats(R.lv[i])]])>>)

(* ---------------- C05: well-formed rings, orientation, collapse policy ---------------- *)
RingOK(ring, isHole) ==
  /\ Len(ring) >= 1
  /\ Distinct(ring)                                   \* no closing duplicate, no equal neighbours, no vertex twice
  /\ (~R.keep => Len(ring) >= 3)
  /\ LET o == Orientation(ring)
         want == IF isHole # R.rev THEN -1 ELSE 1    \* shell CCW, hole CW; opposite when reversed
     IN  o = 0 \/ o = want
C05_WellFormed ==
  Ok => /\ \A i \in 1..Len(R.res) :
             /\ Len(R.res[i].polys) >= 1                                     \* never an empty list
             /\ \A p \in 1..Len(R.res[i].polys) :
                  /\ Len(R.res[i].polys[p]) >= 1
                  /\ \A r \in 1..Len(R.res[i].polys[p]) : RingOK(R.res[i].polys[p][r], r > 1)
        /\ \A i, j \in 1..Len(R.res) : i # j => R.res[i].z # R.res[j].z
        /\ \A i \in 1..Len(R.res) : R.res[i].z \in Requested(R)

(* ---------------- relations between the records of a group ---------------- *)
Later == {j \in (l + 1)..(IF l + GroupMax < N THEN l + GroupMax ELSE N) : Trace[j].g = R.g}
SameFlagsExcept(Q, f) == /\ (f = "keep" \/ Q.keep = R.keep) /\ (f = "rev" \/ Q.rev = R.rev) /\ Q.ig = R.ig
SameUpToRingDir(P1, P2) == /\ Len(P1) = Len(P2)
                           /\ \A r \in 1..Len(P1) : P2[r] = P1[r] \/ P2[r] = Reverse(P1[r])
IsExtra(poly) == Len(poly) = 1 /\ Len(poly[1]) \in {1, 2}
KeepExtends(NK, K) ==       \* K: the run with keep-points-and-lines, NK: the run without
  \A z \in Requested(NK) : HasRes(NK, z) =>
     LET a == PolysAt(NK, z)
         b == PolysAt(K, z)
     IN  /\ HasRes(K, z) /\ Len(b) >= Len(a)
         /\ SubSeq(b, 1, Len(a)) = a
         /\ \A p \in (Len(a) + 1)..Len(b) : IsExtra(b[p])
C05_KeepExtends ==
  \A j \in Later : LET Q == Trace[j] IN
    (Q.poly = R.poly /\ Q.lv = R.lv /\ SameFlagsExcept(Q, "keep") /\ Q.keep # R.keep /\ Q.out = "ok" /\ Ok) =>
      IF R.keep THEN KeepExtends(Q, R) ELSE KeepExtends(R, Q)

(* "... followed by the collapsed parts": with the option, a ring whose routed boundary is one or two pixel centres on a tile matrix that
   is present comes back as a one-ring polygon of exactly these centres (snap.go:404-411, before any spike removal or splitting) *)
C05_CollapsedPartsKept ==
  (Ok /\ R.keep /\ Len(R.poly) >= 1) =>
    \A e \in SeqToSet(R.lv) : HasRes(R, e.z) =>
      LET sp == Span(e.k)
          hot == HotAt(R.poly, sp)
          ps == PolysAt(R, e.z)
      IN  \A r \in 1..Len(R.poly) :
            Len(R.poly[r]) >= 1 =>
              LET chain == ChainPts(NormRing(R.poly[r], r > 1), hot, sp)
              IN  Len(chain) \in {1, 2} => \E p \in 1..Len(ps) : Len(ps[p]) = 1 /\ ps[p][1] = chain

C07_Deterministic ==
  \A j \in Later : LET Q == Trace[j] IN
    (Q.poly = R.poly /\ Q.lv = R.lv /\ SameFlagsExcept(Q, "none")) => (Q.res = R.res /\ Q.out = R.out)
C07_RingDirection ==
  \A j \in Later : LET Q == Trace[j] IN
    (Valid /\ Q.poly # R.poly /\ SameUpToRingDir(R.poly, Q.poly) /\ Q.lv = R.lv /\ SameFlagsExcept(Q, "none")) =>
      (Q.res = R.res /\ (Q.out = "ok") = (R.out = "ok"))      \* (a refusal may name a different vertex of the reversed ring)
RevOf(ps, qs) == /\ Len(ps) = Len(qs)
                 /\ \A p \in 1..Len(ps) : /\ Len(ps[p]) = Len(qs[p])
                                          /\ \A r \in 1..Len(ps[p]) : CyclicRevEq(ps[p][r], qs[p][r])
C07_ReverseFlag ==
  \A j \in Later : LET Q == Trace[j] IN
    (Q.poly = R.poly /\ Q.lv = R.lv /\ SameFlagsExcept(Q, "rev") /\ Q.rev # R.rev /\ Ok /\ Q.out = "ok") =>
      /\ Len(Q.res) = Len(R.res)
      /\ \A i \in 1..Len(R.res) : Q.res[i].z = R.res[i].z /\ RevOf(R.res[i].polys, Q.res[i].polys)

(* a call must not rewrite the polygon it is given: the same value snapped again would then be another input *)
C07_InputUntouched == ~R.inmut
C08_LevelLocal ==
  \A j \in Later : LET Q == Trace[j] IN
    (Q.poly = R.poly /\ SameFlagsExcept(Q, "none") /\ Ok /\ Q.out = "ok") =>
      \A z \in Requested(R) \cap Requested(Q) : HasRes(R, z) = HasRes(Q, z) /\ PolysAt(R, z) = PolysAt(Q, z) /\ FpAt(R, z) = FpAt(Q, z)
(* a tile matrix cannot be "identical alone or together" if one of the two calls does not return at all *)
C08_SameOutcome ==
  \A j \in Later : LET Q == Trace[j] IN
    (Q.poly = R.poly /\ SameFlagsExcept(Q, "none") /\ Requested(R) \cap Requested(Q) # {}) => (Ok <=> Q.out = "ok")
C08_KeysRequested == Ok => \A i \in 1..Len(R.res) : R.res[i].z \in Requested(R)
=============================================================================
