CONSTANTS S = 4  Stride = 16  GroupMax = 14  MaxRun = 12
SPECIFICATION Spec
INVARIANTS EmitStats ProjectionExact C08_LevelLocal C08_SameOutcome C08_KeysRequested
CHECK_DEADLOCK FALSE
