---------------------------- MODULE LevelArithInt ----------------------------
(***************************************************************************)
(* LevelArith.tla (design lemmas behind C03, C09 / F10) without bounds and *)
(* without powers of two: the deepest level has Q = m * r pixels across,   *)
(* a level-l pixel spans m deepest pixels and there are r of them (in the  *)
(* code m = 2^(D-l), r = 2^l; the lemmas hold for ANY factorisation).      *)
(* Truncating divisions are introduced by their defining inequalities      *)
(* (res = Span div Q, half = (m*res) div 2, a = p div res, k = a div m).   *)
(*   apalache-mc check --init=Init --inv=Inv --length=0                    *)
(* Init is "any admissible situation", so Inv at length 0 is the theorem   *)
(* for every span, depth, level, pixel and ordinate.  Tightening a bound   *)
(* (Dev instead of Dev + 1 in lemma 1, Span instead of Span - Dev in lemma *)
(* 3) makes Apalache produce a counterexample, as does ~(a concrete        *)
(* situation): Init is satisfiable and the bounds are the right ones.      *)
(***************************************************************************)
EXTENDS Integers
VARIABLES
  \* @type: Int;
  Span,
  \* @type: Int;
  Q,
  \* @type: Int;
  m,
  \* @type: Int;
  r,
  \* @type: Int;
  x,
  \* @type: Int;
  p,
  \* @type: Int;
  res,
  \* @type: Int;
  half,
  \* @type: Int;
  a,
  \* @type: Int;
  k
Init == /\ m \in Nat /\ m >= 1 /\ r \in Nat /\ r >= 1 /\ Q = m * r
        /\ Span \in Nat /\ Span >= Q
        /\ res \in Nat /\ res * Q <= Span /\ Span < res * Q + Q              \* res = Span div Q
        /\ x \in Nat /\ x < r
        /\ p \in Nat /\ p < Span
        /\ half \in Nat /\ 2 * half <= m * res /\ m * res <= 2 * half + 1     \* half = (m * res) div 2
        /\ a \in Nat /\ a * res <= p /\ p < a * res + res                     \* a = p div res
        /\ k \in Nat /\ k * m <= a /\ a < k * m + m                           \* k = a div m
Next == UNCHANGED <<Span, Q, m, r, x, p, res, half, a, k>>
Dev == Span - res * Q
Centre == x * (m * res) + half
Abs(v) == IF v < 0 THEN -v ELSE v
(* Lemma 1 (C03): a centre of the code's grid is never farther from the ideal centre than the reported deviation (+ 1 unit) *)
CentreWithinDeviation == Abs(Centre * (2 * r) - (2 * x + 1) * Span) <= (Dev + 1) * (2 * r)
(* Lemma 3 (C09 / F10): an ordinate of the half-open extent is accepted iff it is not in the last Dev units *)
AcceptedBand == (a <= Q - 1) <=> (p < Span - Dev)
(* the address at level l is the pixel that contains p *)
AddrIsPixel == (a <= Q - 1) => (k * (m * res) <= p /\ p < (k + 1) * (m * res) /\ k < r)
Inv == CentreWithinDeviation /\ AcceptedBand /\ AddrIsPixel
=============================================================================
