CONSTANTS S = 4  Stride = 16  GroupMax = 14  MaxRun = 12
SPECIFICATION Spec
INVARIANTS EmitStats ProjectionExact C06_NoPanic C06_Time C01_NoCrossing C02_NonCollapsingExact C04_VerticesAreCentres C04_EdgesNearInput C04_Coverage C18_ExactRegime C05_WellFormed C05_KeepExtends C05_CollapsedPartsKept C07_Deterministic C07_InputUntouched C07_RingDirection C07_ReverseFlag C08_LevelLocal C08_SameOutcome C08_KeysRequested
CHECK_DEADLOCK FALSE
