------------------------------- MODULE Morton -------------------------------
(***************************************************************************)
(* Z-order (Morton) keys of texel's quadtree (morton/morton.go), C17.      *)
(*                                                                         *)
(* A 64-bit machine word is the set of positions of its one-bits, so the   *)
(* shift / or / and of the code are literally set operations and every     *)
(* stage of the network is a union-homomorphism by construction.           *)
(* Masks, Pows and the loop bounds are CONSTANTS: the harness reads them   *)
(* from morton/morton.go (go/ast) and writes MortonConsts.tla, so TLC      *)
(* checks the network the code contains, not a copy of it.                 *)
(***************************************************************************)
EXTENDS Integers, FiniteSets, Sequences, TLC, Json, MortonConsts

Bits     == 0..63
Lo32     == 0..31
Shl(S, k) == {i + k : i \in S} \cap Bits
Shr(S, k) == {i - k : i \in {j \in S : j >= k}}

(* morton.go:24-31  for i := ToZHi; i >= ToZLo; i-- { x = (x | x << pow[i+1]) & masks[i] }  (0-based) *)
SpreadStage(X, i) == (X \cup Shl(X, Pows[i + 2])) \cap Masks[i + 1]
RECURSIVE Spread(_, _)
Spread(X, i) == IF i < ToZLo THEN X ELSE Spread(SpreadStage(X, i), i - 1)
ToZ(X, Y) == Spread(X, ToZHi) \cup Shl(Spread(Y, ToZHi), 1)

(* morton.go:41-48  for i := FromZLo; i <= FromZHi; i++ { x = (x | x >> pow[i]) & masks[i] } *)
SqueezeStage(X, i) == (X \cup Shr(X, Pows[i + 1])) \cap Masks[i + 1]
RECURSIVE Squeeze(_, _)
Squeeze(X, i) == IF i > FromZHi THEN X ELSE Squeeze(SqueezeStage(X, i), i + 1)
FromZ(Z) == <<Squeeze(Z, FromZLo), Squeeze(Shr(Z, 1), FromZLo)>>

(* What the property demands *)
Interleave(X, Y) == {2 * i : i \in X} \cup {2 * i + 1 : i \in Y}
Encodable(X, Y)  == X \subseteq Lo32 /\ Y \subseteq Lo32
ParentKey(Z)     == Shr(Z, 2)
ChildKeys(Z)     == [q \in 0..3 |->                      \* pointindex.go:347-357
                      LET p == FromZ(Z)
                          X2 == Shl(p[1], 1) \cup (IF q % 2 = 1 THEN {0} ELSE {})
                          Y2 == Shl(p[2], 1) \cup (IF q \div 2 = 1 THEN {0} ELSE {})
                      IN ToZ(X2, Y2)]

(* ---------- the network as a state machine (one action per loop iteration) ---------- *)
VARIABLES x0, y0, x, y, stage, dir, z
vars == <<x0, y0, x, y, stage, dir, z>>

Words2 == {{}} \cup {{i} : i \in Lo32} \cup {{i, j} : i, j \in Lo32}   \* all words with <= 2 bits
Words1 == {{}} \cup {{i} : i \in Lo32}

Init == /\ x0 \in Words2 /\ y0 \in Words1
        /\ x = x0 /\ y = y0 /\ stage = ToZHi /\ dir = "toZ" /\ z = {}

SpreadAct == /\ dir = "toZ" /\ stage >= ToZLo
             /\ x' = SpreadStage(x, stage) /\ y' = SpreadStage(y, stage)
             /\ stage' = stage - 1 /\ UNCHANGED <<x0, y0, dir, z>>
Combine   == /\ dir = "toZ" /\ stage < ToZLo
             /\ z' = x \cup Shl(y, 1)
             /\ x' = z' /\ y' = Shr(z', 1) /\ stage' = FromZLo /\ dir' = "fromZ"
             /\ UNCHANGED <<x0, y0>>
SqueezeAct == /\ dir = "fromZ" /\ stage <= FromZHi
              /\ x' = SqueezeStage(x, stage) /\ y' = SqueezeStage(y, stage)
              /\ stage' = stage + 1 /\ UNCHANGED <<x0, y0, dir, z>>
Done == dir = "fromZ" /\ stage > FromZHi
Finish == Done /\ UNCHANGED vars
Next == SpreadAct \/ Combine \/ SqueezeAct \/ Finish
Spec == Init /\ [][Next]_vars
(* thorough tier: both words with up to two bits (279 841 generator pairs) *)
InitDeep == /\ x0 \in Words2 /\ y0 \in Words2
            /\ x = x0 /\ y = y0 /\ stage = ToZHi /\ dir = "toZ" /\ z = {}
SpecDeep == InitDeep /\ [][Next]_vars

(* ---------- properties (C17) ---------- *)
KeyIsInterleave == dir = "fromZ" => z = Interleave(x0, y0)
RoundTrip       == Done => (x = x0 /\ y = y0)
ParentIsShift   == dir = "fromZ" => Interleave(Shr(x0, 1), Shr(y0, 1)) = ParentKey(z)
ChildrenOK      == Done => \A q \in 0..3 :
                      ChildKeys(z)[q] = Interleave(Shl(x0, 1) \cup (IF q % 2 = 1 THEN {0} ELSE {}),
                                                   Shl(y0, 1) \cup (IF q \div 2 = 1 THEN {0} ELSE {}))
                      \/ ~Encodable(Shl(x0, 1), Shl(y0, 1))
(* operator forms agree with the state machine *)
OperatorForm    == Done => (ToZ(x0, y0) = z /\ FromZ(z) = <<x0, y0>>)

(* Injectivity on the enumerated words follows from RoundTrip; the lift to all 2^64 pairs is        *)
(* union-linearity of every stage, checked here on the generators and (for the real machine words)  *)
(* by the trace check MortonTrace.                                                                  *)
StageLinear == \A i \in ToZLo..ToZHi :
                 SpreadStage(x0 \cup y0, i) = SpreadStage(x0, i) \cup SpreadStage(y0, i)

(* Outside 32 bits the network aliases: the ok flag is load-bearing (witness) *)
AliasWitness == \E i \in 32..63 : \E X \in Words1 : X # {i} /\ ToZ({i}, {}) = ToZ(X, {})

(* test vectors for the replay direction: printed once per initial state *)
EmitVec == (dir = "toZ" /\ stage = ToZHi) =>
              PrintT(<<"VEC", ToJson([x |-> x0, y |-> y0, z |-> Interleave(x0, y0)])>>)
=============================================================================
