\* 5 labels, length <= 11
CONSTANTS Labels = 5  MaxLen = 11
SPECIFICATION Spec
INVARIANTS EmitVec
CHECK_DEADLOCK FALSE
