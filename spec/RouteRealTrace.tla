--------------------------- MODULE RouteRealTrace ---------------------------
(* C02 on the built-in grids, where coordinates are not exactly representable: only the two end points of an edge are   *)
(* inserted, so the pixels they were inserted into are the only occupied ones, and the closed edge meets both by          *)
(* definition.  The route must therefore return exactly as many centres as there are occupied pixels (1 or 2), each the    *)
(* centre of an occupied pixel -- insertion and routing must agree on the pixel of a vertex whatever the float noise.      *)
EXTENDS Integers, Sequences, TLC, Json
Trace == ndJsonDeserialize("routereal_trace.ndjson")
VARIABLE l
Init == l \in 1..Len(Trace)
Next == UNCHANGED l
Spec == Init /\ [][Next]_l
R == Trace[l]
NoPanic == R.status \in {"ok", "outside"}
EndPixelsAreRouted == R.status = "ok" => (R.routed = R.hot /\ R.hot \in {1, 2} /\ R.first_last)
=============================================================================
