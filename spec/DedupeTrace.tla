----------------------------- MODULE DedupeTrace -----------------------------
(***************************************************************************)
(* Records of the real snap.kmpDeduplicate (driver kmp-run) on the label   *)
(* sequences Dedupe.tla enumerates: the real function returns what the     *)
(* transcription computes (AsTranscribed), and the contract of the spike   *)
(* removal holds on the REAL result.                                       *)
(***************************************************************************)
EXTENDS Integers, Sequences, FiniteSets, TLC, Json
Trace == ndJsonDeserialize("dedupe_trace.ndjson")
D == INSTANCE Dedupe WITH Labels <- {}, MaxLen <- 0, ring <- <<>>
VARIABLE l
Init == l \in 1..Len(Trace)
Next == UNCHANGED l
Spec == Init /\ [][Next]_l
R == Trace[l]
Exp == D!CodeDedupe(R.ring)
NoPanic == R.out = "ok"
AsTranscribed == IF R.out = "ok" THEN Exp.panic = "" /\ R.got = Exp.out ELSE Exp.panic # ""
NeverLonger == R.out = "ok" => Len(R.got) <= Len(R.ring)
OnlyLabelsOfInput == R.out = "ok" => D!OnlyLabels(R.ring, R.got)
InventsOnlyBeyondTwice == (R.out = "ok" /\ ~D!NoInvented(R.ring, R.got)) => \E v \in D!SetOf(R.ring) : D!Visits(R.ring, v) >= 3
=============================================================================
