------------------------------- MODULE Dedupe -------------------------------
(***************************************************************************)
(* snap.kmpDeduplicate (snap.go:552-660) as the CODE does it - the spike / *)
(* zig-zag removal applied to every routed ring - transcribed statement by *)
(* statement: the walk that detects a step back, the reverse segment, the  *)
(* growing search corpus, the two kmpSearchAll calls (Kmp.tla, the code's  *)
(* own search including its deviation), the four-way case analysis on the  *)
(* match counts, the sorted map of ranges to remove (keyed by the printed   *)
(* segment: a second range for the same segment is silently not inserted)  *)
(* and mapslicehelp.RemoveSequences (which assumes sorted, non-overlapping *)
(* ranges: anchor of C06).                                                 *)
(*                                                                         *)
(* TLC runs the transcription on every label sequence without equal        *)
(* neighbours up to MaxLen and evaluates the contract of the spike removal *)
(* (ChainsTrace.tla) on it: no index leaves its range, the result is never *)
(* longer, uses only labels of its argument, and - outside the sequences   *)
(* of finding F5 - only adjacencies of its argument.  Every sequence is    *)
(* replayed through the real function (DedupeTrace.tla).                   *)
(***************************************************************************)
EXTENDS Integers, Sequences, FiniteSets, TLC, Json
K == INSTANCE Kmp WITH Alphabet <- {}, MaxFind <- 0, MaxCorpus <- 0, Variant <- "coded", EmitMax <- 0,
                       corpus <- <<>>, find <- <<>>, rest <- <<>>, off <- 0, matches <- <<>>, pc <- "done",
                       tst <- [pos |-> 0], sst <- [r |-> 0]

At(s, i) == s[i + 1]                                  \* s[i] of the Go code
Slice(s, a, b) == SubSeq(s, a + 1, b)                 \* s[a:b]
Min2(a, b) == IF a < b THEN a ELSE b
Rev(s) == [i \in 1..Len(s) |-> s[Len(s) + 1 - i]]
SetOf(s) == {s[i] : i \in 1..Len(s)}
LastOf(s) == s[Len(s)]

(* the reverse segment: visited[-1], visited[-2], then as long as the ring keeps walking back *)
RECURSIVE RevSeg(_, _, _, _, _)
RevSeg(ring, visited, i, j, acc) ==
  IF j > Len(visited) THEN acc
  ELSE LET nextI == i + (j - 2)
       IN  IF nextI <= Len(ring) - 1 /\ visited[Len(visited) + 1 - j] = At(ring, nextI)
           THEN RevSeg(ring, visited, i, j + 1, Append(acc, visited[Len(visited) + 1 - j]))
           ELSE acc
(* the search corpus: 3 segment lengths, then 2 more at a time until it holds a point that is not in the segment or the ring ends *)
RECURSIVE Corpus(_, _, _, _, _)
Corpus(ring, seg, start, end, k) ==
  LET n == Len(ring)
      cor == Slice(ring, start, Min2(end, n))
      fresh == SubSeq(cor, k + 1, Len(cor))
      stop == (\E x \in 1..Len(fresh) : fresh[x] \notin SetOf(seg)) \/ end > n
  IN  IF stop THEN cor ELSE Corpus(ring, seg, start, end + 2 * Len(seg), Len(cor))

(* the sorted map: insertion keeps the order by start index (equal starts after the existing ones), an existing key is kept *)
InsertSeq(seqs, key, rng) ==
  IF \E x \in 1..Len(seqs) : seqs[x].key = key THEN seqs
  ELSE LET pos == Cardinality({x \in 1..Len(seqs) : ~(rng[1] < seqs[x].rng[1])})      \* first index whose start is greater
       IN  SubSeq(seqs, 1, pos) \o <<[key |-> key, rng |-> rng]>> \o SubSeq(seqs, pos + 1, Len(seqs))

(* mapslicehelp.RemoveSequences; "panic" if a slice expression leaves its bounds *)
RECURSIVE Remove(_, _, _, _, _)
Remove(ring, seqs, x, keepFrom, acc) ==
  IF x > Len(seqs)
  THEN IF keepFrom > Len(ring) THEN [panic |-> "slice bounds out of range", out |-> <<>>]
       ELSE [panic |-> "", out |-> acc \o Slice(ring, keepFrom, Len(ring))]
  ELSE LET keepTo == seqs[x].rng[1]
       IN  IF keepTo < keepFrom \/ keepTo > Len(ring) \/ keepFrom < 0 THEN [panic |-> "slice bounds out of range", out |-> <<>>]
           ELSE Remove(ring, seqs, x + 1, seqs[x].rng[2], acc \o Slice(ring, keepFrom, keepTo))

(* the main loop; state [i, visited, seqs] *)
RECURSIVE Loop(_, _, _, _, _)
Loop(ring, i, visited, seqs, fuel) ==
  IF fuel = 0 THEN [panic |-> "no progress", out |-> <<>>]
  ELSE IF i < 0 THEN [panic |-> "index out of range", out |-> <<>>]
  ELSE IF i >= Len(ring) THEN Remove(ring, seqs, 1, 0, <<>>)
  ELSE LET vertex == At(ring, i)
       IN  IF Len(visited) <= 1 \/ visited[Len(visited) - 1] # vertex
           THEN Loop(ring, i + 1, Append(visited, vertex), seqs, fuel - 1)
           ELSE LET rev == RevSeg(ring, visited, i, 3, <<LastOf(visited), visited[Len(visited) - 1]>>)
                    seg == Rev(rev)
                    n == Len(seg)
                    start == i - n
                    cor == Corpus(ring, seg, start, start + 3 * n, 0)
                    m == K!All("coded", cor, seg)
                    r == K!All("coded", cor, rev)
                    nm == Len(m)
                    nr == Len(r)
                IN  IF start < 0 \/ Len(cor) < n THEN [panic |-> "slice bounds out of range", out |-> <<>>]
                    ELSE IF nm > 1 /\ nm - nr = 1                                    \* zig-zag
                    THEN LET e == start + LastOf(m) + n IN Loop(ring, e, <<>>, InsertSeq(seqs, seg, <<start + n, e>>), fuel - 1)
                    ELSE IF nm > 1 /\ nm = nr                                         \* multiple backtrace
                    THEN LET e == start + LastOf(m) + n IN Loop(ring, e, <<>>, InsertSeq(seqs, seg, <<start + 2 * n - 1, e>>), fuel - 1)
                    ELSE IF nm = 1 /\ nr = 1                                          \* backtrace: nothing removed
                    THEN Loop(ring, start + 2 * n - 1, <<>>, seqs, fuel - 1)
                    ELSE LET se == IF nr > nm THEN start + 2 * (n - 1) * nm
                                   ELSE IF nm > 1 /\ nm - nr > 1 THEN start + 2 * (n - 1) * nr ELSE 0
                             ep == IF nr > nm THEN start + LastOf(r) + n
                                   ELSE IF nm > 1 /\ nm - nr > 1 THEN start + LastOf(m) + n ELSE 0
                         IN  Loop(ring, ep - 1, <<>>, InsertSeq(seqs, seg, <<start, se>>), fuel - 1)
CodeDedupe(ring) == Loop(ring, 0, <<>>, <<>>, 4 * Len(ring) + 8)

(* ---------------- the contract (ChainsTrace.tla) ---------------- *)
Adj(s) == IF Len(s) < 2 THEN {} ELSE {{s[i], s[(i % Len(s)) + 1]} : i \in 1..Len(s)}
OnlyLabels(ring, out) == SetOf(out) \subseteq SetOf(ring)
NoInvented(ring, out) == Adj(out) \subseteq Adj(ring) \cup {{x} : x \in SetOf(ring)}
Visits(ring, v) == Cardinality({i \in 1..Len(ring) : ring[i] = v})

(* ---------------- the enumeration ---------------- *)
CONSTANTS Labels, MaxLen
VARIABLE ring
Init == ring = <<>>
Next == /\ Len(ring) < MaxLen
        /\ \E l \in Labels : (IF Len(ring) = 0 THEN TRUE ELSE ring[Len(ring)] # l) /\ ring' = Append(ring, l)
Spec == Init /\ [][Next]_ring
Ready == Len(ring) >= 3 /\ ring[1] # ring[Len(ring)]
Res == CodeDedupe(ring)
NoPanic == Ready => Res.panic = ""
NeverLonger == (Ready /\ Res.panic = "") => Len(Res.out) <= Len(ring)
OnlyLabelsOfInput == (Ready /\ Res.panic = "") => OnlyLabels(ring, Res.out)
(* finding F5 at design level: an adjacency is invented only if some label is visited three times or more *)
InventsOnlyBeyondTwice == (Ready /\ Res.panic = "" /\ ~NoInvented(ring, Res.out)) => \E v \in SetOf(ring) : Visits(ring, v) >= 3
Emit == Ready => PrintT(<<"VEC", ToJson([ring |-> ring, out |-> Res.out, panic |-> Res.panic, invents |-> ~NoInvented(ring, Res.out)])>>)
=============================================================================
