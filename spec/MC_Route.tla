------------------------------ MODULE MC_Route ------------------------------
(***************************************************************************)
(* Exhaustive model for C02: every segment with endpoints on the lattice   *)
(* of a W x W pixel window (S lattice units per pixel, borders included)   *)
(* x several hot sets.  Each initial state is one routing problem; TLC     *)
(*  - checks the routing oracle against a brute-force definition           *)
(*    (MeetsIsExact, OrderIsTravel, EndsFirstLast)  -- MC_GridSelf.cfg     *)
(*  - prints the problem and its specified route as a test vector that the *)
(*    harness replays through the real PointIndex.SnapClosestPoints        *)
(*    at several quadtree placements, depths and levels  -- MC_Route.cfg   *)
(***************************************************************************)
EXTENDS Grid, Json

CONSTANTS W,        \* window size in pixels
          Modes     \* subset of {"all", "ends", "mixA", "mixB", "none"}

Lat    == 0..(W * S)
Pixels == {<<i, j>> : i, j \in 0..W}       \* pixel W holds the points on the right / top border of the window
PixIdx(px) == px[1] + (W + 1) * px[2]

HotOf(a, b, mode) ==
  CASE mode = "init" -> {}
    [] mode = "all"  -> Pixels
    [] mode = "ends" -> {PixOf(a), PixOf(b)}
    [] mode = "mixA" -> {PixOf(a), PixOf(b)} \cup
                        {p \in Pixels : (a[1] + 3 * a[2] + 5 * b[1] + 7 * b[2] + 11 * PixIdx(p)) % 3 = 0}
    [] mode = "mixB" -> {p \in Pixels : (2 * a[1] + a[2] + 3 * b[1] + b[2] + 5 * PixIdx(p)) % 2 = 0}
    [] mode = "none" -> {p \in Pixels : (a[1] + b[2] + PixIdx(p)) % 4 = 1} \ {PixOf(a), PixOf(b)}

VARIABLES a, b, mode
vars == <<a, b, mode>>
\* two steps so that TLC's workers share the evaluation: the first endpoint is the initial state,
\* the second endpoint and the hot-set mode are chosen by the (only) step
Init == /\ a \in Lat \X Lat /\ b = a /\ mode = "init"
Next == /\ mode = "init" /\ a' = a /\ b' \in Lat \X Lat /\ mode' \in Modes
Spec == Init /\ [][Next]_vars

hot   == HotOf(a, b, mode)
route == Route(a, b, hot)

(* ---- self-check of the oracle ---- *)
K == LET dx == IF a[1] = b[1] THEN 1 ELSE (IF b[1] > a[1] THEN b[1] - a[1] ELSE a[1] - b[1])
         dy == IF a[2] = b[2] THEN 1 ELSE (IF b[2] > a[2] THEN b[2] - a[2] ELSE a[2] - b[2])
     IN 2 * dx * dy
\* the point at parameter k/K, in lattice units scaled by K
At(k) == <<a[1] * K + k * (b[1] - a[1]), a[2] * K + k * (b[2] - a[2])>>
InPixK(px, q) == /\ px[1] * S * K <= q[1] /\ q[1] < (px[1] * S + S) * K
                 /\ px[2] * S * K <= q[2] /\ q[2] < (px[2] * S + S) * K
FirstIn(px) == CHOOSE k \in 0..K : InPixK(px, At(k)) /\ \A j \in 0..K : InPixK(px, At(j)) => k <= j

MeetsIsExact == mode = "all" =>
                  \A px \in Pixels : Meets(a, b, px) <=> \E k \in 0..K : InPixK(px, At(k))
OrderIsTravel == mode = "all" =>
                  \A i, j \in 1..Len(route) : i < j => FirstIn(route[i]) < FirstIn(route[j])
EndsFirstLast == (mode # "init" /\ PixOf(a) \in hot /\ PixOf(b) \in hot) =>
                  /\ Len(route) >= 1 /\ route[1] = PixOf(a) /\ route[Len(route)] = PixOf(b)
NoDuplicates  == mode # "init" => \A i, j \in 1..Len(route) : i # j => route[i] # route[j]
SubsetFilter  == \* routing through a subset of hot pixels is the full route with the others struck out
                 mode # "init" => route = SelectSeq(Route(a, b, Pixels), LAMBDA p : p \in hot)

EmitVec == mode # "init" => PrintT(<<"VEC", ToJson([a |-> a, b |-> b, m |-> mode,
                                   hot |-> SetToSeq(hot), route |-> route])>>)
=============================================================================
