\* design: 2 ids x 3 tables (polygon / multipolygon / other) x overwrite x ignore-outside x pre-existing files x validation outcome x outside feature
CONSTANTS Ids <- MCIds  Tables <- MCTables  ValidTms = FALSE  AnyOutside = FALSE
SPECIFICATION Spec
INVARIANTS DoneComplete NothingOldSurvives ValidationGate ExitCode
PROPERTIES Terminates
