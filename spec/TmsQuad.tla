------------------------------ MODULE TmsQuad ------------------------------
(***************************************************************************)
(* Validation of a tile matrix set as a quadtree (C14):                    *)
(* main.validateTileMatrixSet = pointindex.DeviationStats (needs matrix 0, *)
(* its bounding box) followed by pointindex.IsQuadTree (per-matrix and     *)
(* pairwise checks over the sorted ids).                                   *)
(*                                                                         *)
(* Abstract tile matrix: [id, mw, mh, tw, th, so, sc, ratio, vmw] where    *)
(* so / sc say whether point / corner of origin equal the previous         *)
(* matrix's, ratio classifies cellSize(prev)/cellSize(this):               *)
(*   "first" (no previous) | "exact" (= 2) | "tol" (in [1.99, 2.01], # 2)  *)
(*   | "off" (outside the tolerance), and vmw = has variable widths.       *)
(* A set is the sequence of its matrices sorted by id.                     *)
(***************************************************************************)
EXTENDS Integers, Sequences, FiniteSets

MatrixOK(m) == m.mw = m.mh /\ m.tw = m.th /\ ~m.vmw
PairOK(p, m) == /\ m.id = p.id + 1 /\ m.so /\ m.sc /\ m.th = p.th /\ m.mh = 2 * p.mh
                /\ m.ratio \in {"exact", "tol"}
HasZero(t) == \E i \in 1..Len(t) : t[i].id = 0
(* what the property calls a true quadtree (cell size halving up to the tool's stated tolerance) *)
IsTrueQuadTree(t) == /\ Len(t) >= 1 /\ t[1].id = 0
                     /\ \A i \in 1..Len(t) : MatrixOK(t[i])
                     /\ \A i \in 2..Len(t) : PairOK(t[i - 1], t[i])
(* what validation must answer; it never panics *)
Validate(t) == IF IsTrueQuadTree(t) THEN "ok" ELSE "error"

(* ---- transcription of the code's order of checks (pointindex.go:515-563 after main.go:190-201) ---- *)
RECURSIVE Loop(_, _)
Loop(t, i) == IF i > Len(t) THEN "ok"
              ELSE IF ~MatrixOK(t[i]) THEN "error"
              ELSE IF i > 1 /\ ~PairOK(t[i - 1], t[i]) THEN "error"
              ELSE Loop(t, i + 1)
CodeValidate(t) == IF ~HasZero(t) THEN "error"        \* DeviationStats: tile matrix with id 0 not found
                   ELSE Loop(t, 1)

(* ---- perturbations of an accepted set (one field of one matrix) ---- *)
Fields == {"mw", "mh", "tw", "th", "origin", "corner", "cell", "idgap", "vmw", "drop0"}
Perturb(t, i, f) ==
  CASE f = "mw"     -> [t EXCEPT ![i].mw = @ + 1]
    [] f = "mh"     -> [t EXCEPT ![i].mh = @ * 2]
    [] f = "tw"     -> [t EXCEPT ![i].tw = @ * 2]
    [] f = "th"     -> [t EXCEPT ![i].th = @ * 2]
    [] f = "origin" -> IF Len(t) = 1 THEN t                      \* one matrix: nothing to differ from
                       ELSE IF i = 1 THEN [t EXCEPT ![2].so = FALSE] ELSE
                       IF i = Len(t) THEN [t EXCEPT ![i].so = FALSE] ELSE [t EXCEPT ![i].so = FALSE, ![i + 1].so = FALSE]
    [] f = "corner" -> IF Len(t) = 1 THEN t
                       ELSE IF i = 1 THEN [t EXCEPT ![2].sc = FALSE] ELSE
                       IF i = Len(t) THEN [t EXCEPT ![i].sc = FALSE] ELSE [t EXCEPT ![i].sc = FALSE, ![i + 1].sc = FALSE]
    [] f = "cell"   -> IF Len(t) = 1 THEN t
                       ELSE IF i = 1 THEN [t EXCEPT ![2].ratio = "off"] ELSE
                       IF i = Len(t) THEN [t EXCEPT ![i].ratio = "off"] ELSE [t EXCEPT ![i].ratio = "off", ![i + 1].ratio = "off"]
    [] f = "idgap"  -> [j \in 1..Len(t) |-> IF j >= i THEN [t[j] EXCEPT !.id = @ + 1] ELSE t[j]]
    [] f = "vmw"    -> [t EXCEPT ![i].vmw = TRUE]
    [] f = "drop0"  -> Tail(t)
Breaks(t, i, f) == Perturb(t, i, f) # t

(* ---- exhaustive design model ---- *)
CONSTANT Depth
Base == [i \in 1..Depth |-> [id |-> i - 1, mw |-> 2 ^ (i - 1), mh |-> 2 ^ (i - 1), tw |-> 256, th |-> 256,
                             so |-> TRUE, sc |-> TRUE, ratio |-> IF i = 1 THEN "first" ELSE "exact", vmw |-> FALSE]]
VARIABLES lvl, fld
Init == lvl \in 1..Depth /\ fld \in Fields
Next == UNCHANGED <<lvl, fld>>
Spec == Init /\ [][Next]_<<lvl, fld>>
BaseAccepted == Validate(Base) = "ok" /\ CodeValidate(Base) = "ok"
BrokenRejected == Breaks(Base, lvl, fld) => (/\ ~IsTrueQuadTree(Perturb(Base, lvl, fld))
                                             /\ CodeValidate(Perturb(Base, lvl, fld)) = "error")
CodeMatchesProperty == CodeValidate(Perturb(Base, lvl, fld)) = Validate(Perturb(Base, lvl, fld))
=============================================================================
