-------------------------------- MODULE Snap --------------------------------
(***************************************************************************)
(* snap.SnapPolygon as a state machine, one action per block of code that  *)
(* changes abstract state (snap.go:43-155), on the lattice of Grid.tla.    *)
(*                                                                         *)
(*   Start -> InsertVertex* -> ( BeginRing -> SnapSegment* -> FinishRing(l) *)
(*   for every live level, in ANY order (Go map iteration) )* ->           *)
(*   Assemble(l) in any order -> AppendPointsAndLines -> Return            *)
(*                                                                         *)
(* The two heuristic stages of the code (spike removal + ring splitting,   *)
(* and the matching of holes to shells) are represented by REFERENCE       *)
(* operators that do the obviously right thing:                            *)
(*   PeelLoops   walks the routed chain with a stack and peels off a       *)
(*               closed loop whenever a vertex comes back; loops of fewer  *)
(*               than three vertices are points / lines                    *)
(*   Assemble    cancels a shell against an identical hole, then attaches  *)
(*               every hole to the smallest shell that contains it         *)
(* The design model (MC_Snap) checks that this machine satisfies the       *)
(* listed properties for every small polygon: the contract that            *)
(* SnapTrace.tla demands of the implementation is satisfiable and the      *)
(* properties follow from snap rounding + loop peeling, whatever the order *)
(* in which levels are finished.  The implementation is bound to the same  *)
(* contract by trace validation (SnapTrace.tla), not to PeelLoops itself.  *)
(***************************************************************************)
EXTENDS Grid, RingOps

CONSTANTS N,          \* the grid has N x N finest pixels (half-open extent [0, N*S)^2)
          Ks,         \* requested levels as coarsening exponents: k = 0 finest, pixel span S * 2^k
          InputPolys  \* the inputs explored (set of polygons = sequences of rings)

Pow2(k) == 2 ^ k
SpanK(k) == S * Pow2(k)
PixK(v, k) == <<v[1] \div SpanK(k), v[2] \div SpanK(k)>>
CentreK(px, k) == <<px[1] * SpanK(k) + SpanK(k) \div 2, px[2] * SpanK(k) + SpanK(k) \div 2>>
AllVerts(P) == UNION {SeqToSet(P[r]) : r \in 1..Len(P)}
NormRing(ring, isHole) == LET o == Orientation(ring)
                          IN  IF (isHole /\ o = 1) \/ (~isHole /\ o = -1) THEN Reverse(ring) ELSE ring

(* ---------------- reference post-processing of one routed ring ---------------- *)
IndexOf(s, v) == IF \E i \in 1..Len(s) : s[i] = v THEN CHOOSE i \in 1..Len(s) : s[i] = v ELSE 0
(* walk the chain; stack holds the open path; a returning vertex closes a loop *)
RECURSIVE Peel(_, _, _, _)
Peel(chain, i, stack, loops) ==
  IF i > Len(chain) THEN <<stack, loops>>
  ELSE LET v == chain[i]
           j == IndexOf(stack, v)
       IN  IF j = 0 THEN Peel(chain, i + 1, Append(stack, v), loops)
           ELSE Peel(chain, i + 1, SubSeq(stack, 1, j), Append(loops, SubSeq(stack, j, Len(stack))))
PeelLoops(chain) == LET r == Peel(chain, 1, <<>>, <<>>)
                    IN  IF r[1] = <<>> THEN r[2] ELSE Append(r[2], r[1])     \* the rest of the stack is the last loop
(* classification as in snap.go:488-525 *)
Classify(loops, isOuter) ==
  LET big    == SelectSeq(loops, LAMBDA L : Len(L) >= 3)
      small  == SelectSeq(loops, LAMBDA L : Len(L) < 3)
      asOut  == SelectSeq(big, LAMBDA L : IF isOuter THEN Orientation(L) >= 0 ELSE Orientation(L) > 0)
      asIn   == SelectSeq(big, LAMBDA L : IF isOuter THEN Orientation(L) < 0 ELSE Orientation(L) <= 0)
      RevAll(ss) == [i \in 1..Len(ss) |-> Reverse(ss[i])]
  IN  IF isOuter /\ asOut = <<>> /\ asIn # <<>> THEN [o |-> RevAll(asIn), i |-> <<>>, p |-> small]
      ELSE IF ~isOuter /\ asIn = <<>> /\ asOut # <<>> THEN [o |-> <<>>, i |-> RevAll(asOut), p |-> small]
      ELSE [o |-> asOut, i |-> asIn, p |-> small]
Cleanup(chain, isOuter) ==
  IF Len(chain) = 0 THEN [o |-> <<>>, i |-> <<>>, p |-> <<>>]
  ELSE IF Len(chain) < 3 THEN [o |-> <<>>, i |-> <<>>, p |-> <<chain>>]
  ELSE Classify(PeelLoops(chain), isOuter)

(* ---------------- reference assembly ---------------- *)
SameRingOpposite(a, b) == CyclicRevEq(a, b)
RECURSIVE Cancel(_, _)
Cancel(os, is) ==     \* a shell and an identical hole annihilate
  IF \E x \in 1..Len(os), y \in 1..Len(is) : SameRingOpposite(os[x], is[y])
  THEN LET pr == CHOOSE pr \in (1..Len(os)) \X (1..Len(is)) : SameRingOpposite(os[pr[1]], is[pr[2]])
       IN  Cancel(SubSeq(os, 1, pr[1] - 1) \o SubSeq(os, pr[1] + 1, Len(os)), SubSeq(is, 1, pr[2] - 1) \o SubSeq(is, pr[2] + 1, Len(is)))
  ELSE <<os, is>>
ContainsRing(shell, hole) == \A i \in 1..Len(hole) : PointInRing(shell, hole[i]) >= 0
Area2Abs(r) == Abs(SignedArea2(r))
ShellFor(os, hole) ==    \* index of the smallest shell containing the hole, 0 if none
  IF \E x \in 1..Len(os) : ContainsRing(os[x], hole)
  THEN CHOOSE x \in 1..Len(os) : /\ ContainsRing(os[x], hole)
                                 /\ \A y \in 1..Len(os) : ContainsRing(os[y], hole) => (Area2Abs(os[x]) < Area2Abs(os[y]) \/ (Area2Abs(os[x]) = Area2Abs(os[y]) /\ x <= y))
  ELSE 0
AssemblePolys(os0, is0) ==
  LET c  == Cancel(os0, is0)
      os == c[1]
      is == c[2]
      holesOf(x) == SelectSeq(is, LAMBDA h : ShellFor(os, h) = x)
      orphans == SelectSeq(is, LAMBDA h : ShellFor(os, h) = 0)
  IN  [x \in 1..Len(os) |-> <<os[x]>> \o holesOf(x)] \o [y \in 1..Len(orphans) |-> <<Reverse(orphans[y])>>]
RevPolys(ps) == [p \in 1..Len(ps) |-> [r \in 1..Len(ps[p]) |-> Reverse(ps[p][r])]]

(* ---------------- the same two stages AS THE CODE DOES THEM (Impl = "code") ---------------- *)
(* Dedupe.tla (kmpDeduplicate), SplitRing.tla (splitRing) and Assemble.tla (dedupeInnersOuters + matchInnersToPolygons) are
   transcriptions that the real functions are replayed against; with Impl = "code" the machine below runs them instead of the
   reference operators, so TLC checks the properties on the algorithm the code really executes. *)
CONSTANT Impl
DD == INSTANCE Dedupe WITH Labels <- {}, MaxLen <- 0, ring <- <<>>
SRR == INSTANCE SplitRing WITH Labels <- {}, MaxLen <- 0, ring <- <<>>, hm <- {}, phase <- ""
ASM == INSTANCE Assemble WITH Size <- 0, MaxOuters <- 0, MaxInners <- 0, CatSel <- {}, os <- <<>>, is <- <<>>
CodeCleanup(pts, isOuter, hm) ==
  IF Len(pts) = 0 THEN [o |-> <<>>, i |-> <<>>, p |-> <<>>, bad |-> FALSE]
  ELSE IF Len(pts) < 3 THEN [o |-> <<>>, i |-> <<>>, p |-> <<pts>>, bad |-> FALSE]
  ELSE LET d == DD!CodeDedupe(pts)
       IN  IF d.panic # "" THEN [o |-> <<>>, i |-> <<>>, p |-> <<>>, bad |-> TRUE]
           ELSE IF Len(d.out) < 3 THEN [o |-> <<>>, i |-> <<>>, p |-> <<d.out>>, bad |-> FALSE]
           ELSE LET c == SRR!CodeLoops(d.out, hm)
                IN  IF c.panic # "" THEN [o |-> <<>>, i |-> <<>>, p |-> <<>>, bad |-> TRUE]
                    ELSE Classify(c.loops, isOuter) @@ [bad |-> FALSE]
CleanupX(pts, isOuter, hm) == IF Impl = "code" THEN CodeCleanup(pts, isOuter, hm) ELSE Cleanup(pts, isOuter) @@ [bad |-> FALSE]
AssembleX(os0, is0) == IF Impl = "code" THEN ASM!CodeAssembly(os0, is0) ELSE AssemblePolys(os0, is0)

(* ---------------- the machine ---------------- *)
VARIABLES poly, keep, rev, ig, req, pc, vq, hot, live, ri, si, ring, chain, todo, outers, inners, pls, result
vars == <<poly, keep, rev, ig, req, pc, vq, hot, live, ri, si, ring, chain, todo, outers, inners, pls, result>>
EmptyBy == [k \in Ks |-> <<>>]

Init == /\ poly \in InputPolys /\ keep \in BOOLEAN /\ rev \in BOOLEAN /\ ig \in BOOLEAN
        /\ req \in (SUBSET Ks) \ {{}}
        /\ pc = "insert" /\ vq = AllVerts(poly) /\ hot = {} /\ live = req /\ ri = 0 /\ si = 0 /\ ring = <<>>
        /\ chain = EmptyBy /\ todo = {} /\ outers = EmptyBy /\ inners = EmptyBy /\ pls = EmptyBy
        /\ result = [k \in {} |-> <<>>]

(* pointindex.go:110-162 + snap.go:55-64 *)
InsertVertex == /\ pc = "insert" /\ vq # {}
                /\ \E v \in vq :
                     IF InGrid(v, N)
                     THEN /\ hot' = hot \cup {PixOf(v)} /\ vq' = vq \ {v} /\ pc' = pc /\ UNCHANGED result
                     ELSE /\ pc' = (IF ig THEN "done" ELSE "panic") /\ UNCHANGED <<hot, vq>>
                          /\ result' = [k \in {} |-> <<>>]
                /\ UNCHANGED <<poly, keep, rev, ig, req, live, ri, si, ring, chain, todo, outers, inners, pls>>
InsertDone == /\ pc = "insert" /\ vq = {} /\ pc' = "ring"
              /\ UNCHANGED <<poly, keep, rev, ig, req, vq, hot, live, ri, si, ring, chain, todo, outers, inners, pls, result>>
(* snap.go:96-107 *)
BeginRing == /\ pc = "ring" /\ ri < Len(poly)
             /\ ri' = ri + 1 /\ ring' = NormRing(poly[ri + 1], ri + 1 > 1) /\ si' = 1
             /\ chain' = EmptyBy
             /\ pc' = IF live = {} THEN "ring" ELSE "seg"          \* all levels obsolete: the ring is skipped
             /\ UNCHANGED <<poly, keep, rev, ig, req, vq, hot, live, todo, outers, inners, pls, result>>
(* snap.go:110-120 with cleanupNewVertices (366-380): every live level at once *)
CoarseHot(k) == {<<h[1] \div Pow2(k), h[2] \div Pow2(k)>> : h \in hot}
SnapSegment == /\ pc = "seg" /\ si <= Len(ring)
               /\ chain' = [k \in Ks |->
                    IF k \notin live THEN chain[k]
                    ELSE LET rt  == RouteSp(ring[si], Nxt(ring, si), CoarseHot(k), SpanK(k))
                             cl  == IF Len(rt) > 1 THEN SubSeq(rt, 1, Len(rt) - 1) ELSE rt
                             cl2 == IF Len(chain[k]) > 0 /\ Len(cl) > 0 /\ cl[1] = chain[k][Len(chain[k])] THEN Tail(cl) ELSE cl
                         IN  chain[k] \o cl2]
               /\ si' = si + 1
               /\ UNCHANGED <<poly, keep, rev, ig, req, pc, vq, hot, live, ri, ring, todo, outers, inners, pls, result>>
(* pointindex.go checkPointHits: centres the routes of the ring's segments (each without its first element) contain twice or more *)
RECURSIVE HitCountK(_, _, _, _, _)
HitCountK(rg, hotk, k, i, c) ==
  IF i > Len(rg) THEN 0
  ELSE LET rt == RouteSp(rg[i], Nxt(rg, i), hotk, SpanK(k))
       IN  Cardinality({j \in 2..Len(rt) : rt[j] = c}) + HitCountK(rg, hotk, k, i + 1, c)
HitMultipleK(rg, hotk, k) == {CentreK(c, k) : c \in {x \in hotk : HitCountK(rg, hotk, k, 1, x) >= 2}}
SegmentsDone == /\ pc = "seg" /\ si > Len(ring) /\ pc' = "finish" /\ todo' = live
                /\ UNCHANGED <<poly, keep, rev, ig, req, vq, hot, live, ri, si, ring, chain, outers, inners, pls, result>>
(* snap.go:123-135, levels in any order *)
FinishRing(k) ==
  /\ pc = "finish" /\ k \in todo
  /\ LET c0 == chain[k]
         c  == IF Len(c0) > 1 /\ c0[1] = c0[Len(c0)] THEN SubSeq(c0, 1, Len(c0) - 1) ELSE c0     \* snap.go:386-389
         pts == [i \in 1..Len(c) |-> CentreK(c[i], k)]
         cl == CleanupX(pts, ri = 1, HitMultipleK(ring, CoarseHot(k), k))
     IN  IF cl.bad THEN /\ pc' = "panic" /\ UNCHANGED <<live, outers, inners, pls>>            \* the code's own guards (C06)
         ELSE /\ UNCHANGED pc
              /\ IF ri = 1 /\ cl.o = <<>> /\ (~keep \/ cl.p = <<>>)
                 THEN /\ live' = live \ {k} /\ UNCHANGED <<outers, inners, pls>>                  \* the shell collapsed: level dropped
                 ELSE /\ outers' = [outers EXCEPT ![k] = @ \o cl.o]
                      /\ inners' = [inners EXCEPT ![k] = @ \o cl.i]
                      /\ pls' = [pls EXCEPT ![k] = IF keep THEN @ \o cl.p ELSE @]
                      /\ UNCHANGED live
  /\ todo' = todo \ {k}
  /\ UNCHANGED <<poly, keep, rev, ig, req, vq, hot, ri, si, ring, chain, result>>
RingDone == /\ pc = "finish" /\ todo = {}
            /\ pc' = IF ri < Len(poly) THEN "ring" ELSE "assemble"
            /\ todo' = IF ri < Len(poly) THEN {} ELSE live
            /\ UNCHANGED <<poly, keep, rev, ig, req, vq, hot, live, ri, si, ring, chain, outers, inners, pls, result>>
NoMoreRings == /\ pc = "ring" /\ ri = Len(poly) /\ pc' = "assemble" /\ todo' = live
               /\ UNCHANGED <<poly, keep, rev, ig, req, vq, hot, live, ri, si, ring, chain, outers, inners, pls, result>>
(* snap.go:138-147, levels in any order *)
Assemble(k) ==
  /\ pc = "assemble" /\ k \in todo
  /\ LET ps0 == AssembleX(outers[k], inners[k])
         ps  == IF rev THEN RevPolys(ps0) ELSE ps0
     IN  result' = IF ps = <<>> THEN result ELSE [x \in (DOMAIN result) \cup {k} |-> IF x = k THEN ps ELSE result[x]]
  /\ todo' = todo \ {k}
  /\ UNCHANGED <<poly, keep, rev, ig, req, pc, vq, hot, live, ri, si, ring, chain, outers, inners, pls>>
(* snap.go:149-153 *)
AppendPointsAndLines ==
  /\ pc = "assemble" /\ todo = {}
  /\ result' = [x \in (DOMAIN result) \cup {k \in Ks : pls[k] # <<>>} |->
                  (IF x \in DOMAIN result THEN result[x] ELSE <<>>) \o [j \in 1..Len(pls[x]) |-> <<pls[x][j]>>]]
  /\ pc' = "done"
  /\ UNCHANGED <<poly, keep, rev, ig, req, vq, hot, live, ri, si, ring, chain, todo, outers, inners, pls>>
Stop == pc \in {"done", "panic"} /\ UNCHANGED vars
Next == InsertVertex \/ InsertDone \/ BeginRing \/ SnapSegment \/ SegmentsDone \/ (\E k \in Ks : FinishRing(k)) \/ RingDone
        \/ NoMoreRings \/ (\E k \in Ks : Assemble(k)) \/ AppendPointsAndLines \/ Stop
Spec == Init /\ [][Next]_vars /\ WF_vars(Next)

(* ---------------- properties of the design ---------------- *)
Done == pc = "done"
InGridPoly == \A v \in AllVerts(poly) : InGrid(v, N)
Valid == ValidPolygon(poly)
(* C06: total -- an in-grid polygon never ends in the panic state, and the machine terminates (TLC: no deadlock, Terminates) *)
C06_Total == InGridPoly => pc # "panic"
Terminates == <>(pc \in {"done", "panic"})
(* C09 *)
C09_Reject == (~InGridPoly /\ pc \in {"done", "panic"}) => (IF ig THEN pc = "done" /\ DOMAIN result = {} ELSE pc = "panic")
(* C01 *)
C01_NoCrossing == (Done /\ Valid /\ InGridPoly) => \A k \in DOMAIN result : NoCrossing(result[k])
(* C05 *)
RingOK(r, isHole) == /\ Len(r) >= 1 /\ Distinct(r) /\ (~keep => Len(r) >= 3)
                     /\ LET o == Orientation(r) IN o = 0 \/ o = (IF isHole # rev THEN -1 ELSE 1)
C05_WellFormed == Done => \A k \in DOMAIN result :
                     /\ k \in req /\ Len(result[k]) >= 1
                     /\ \A p \in 1..Len(result[k]) : /\ Len(result[k][p]) >= 1
                                                     /\ \A r \in 1..Len(result[k][p]) : RingOK(result[k][p][r], r > 1)
(* C04 (i) *)
C04_VerticesAreCentres == Done => \A k \in DOMAIN result :
     \A pr \in RingsOf(result[k]) : SeqToSet(RingAt(result[k], pr)) \subseteq {CentreK(PixK(v, k), k) : v \in AllVerts(poly)}
(* C07 / C08: the result of a level is a function of (polygon, flags, level) -- it depends neither on the order in which levels
   are finished and assembled nor on which other levels were requested *)
RefChain(P, r, k) ==
  LET RECURSIVE Acc(_, _)
      hotk == {PixK(v, k) : v \in AllVerts(P)}
      rg == NormRing(P[r], r > 1)
      Acc(i, acc) == IF i > Len(rg) THEN acc
                     ELSE LET rt  == RouteSp(rg[i], Nxt(rg, i), hotk, SpanK(k))
                              cl  == IF Len(rt) > 1 THEN SubSeq(rt, 1, Len(rt) - 1) ELSE rt
                              cl2 == IF Len(acc) > 0 /\ Len(cl) > 0 /\ cl[1] = acc[Len(acc)] THEN Tail(cl) ELSE cl
                          IN  Acc(i + 1, acc \o cl2)
      c0 == Acc(1, <<>>)
      c  == IF Len(c0) > 1 /\ c0[1] = c0[Len(c0)] THEN SubSeq(c0, 1, Len(c0) - 1) ELSE c0
  IN  [i \in 1..Len(c) |-> CentreK(c[i], k)]
RECURSIVE RefLevel(_, _, _, _, _, _)
RefLevel(P, k, r, os, is, ps) ==      \* sequential reference for one level alone
  IF r > Len(P) THEN [o |-> os, i |-> is, p |-> ps, dropped |-> FALSE]
  ELSE LET cl == CleanupX(RefChain(P, r, k), r = 1, HitMultipleK(NormRing(P[r], r > 1), {PixK(v, k) : v \in AllVerts(P)}, k))
       IN  IF r = 1 /\ cl.o = <<>> /\ (~keep \/ cl.p = <<>>) THEN [o |-> <<>>, i |-> <<>>, p |-> <<>>, dropped |-> TRUE]
           ELSE RefLevel(P, k, r + 1, os \o cl.o, is \o cl.i, IF keep THEN ps \o cl.p ELSE ps)
RefResult(P, k) == LET L == RefLevel(P, k, 1, <<>>, <<>>, <<>>)
                       ps0 == AssembleX(L.o, L.i)
                       ps == IF rev THEN RevPolys(ps0) ELSE ps0
                   IN  IF L.dropped THEN <<>> ELSE ps \o [j \in 1..Len(L.p) |-> <<L.p[j]>>]
C07C08_FunctionOfLevel == (Done /\ InGridPoly) => \A k \in req :
                              IF RefResult(poly, k) = <<>> THEN k \notin DOMAIN result
                              ELSE k \in DOMAIN result /\ result[k] = RefResult(poly, k)
(* C18: loop peeling keeps the signed area of the routed boundary and every edge is a routed edge *)
VisitsOK(k) == LET ch == [r \in 1..Len(poly) |-> RefChain(poly, r, k)]
                   pos == UNION {{<<r, i>> : i \in 1..Len(ch[r])} : r \in 1..Len(ch)}
               IN  \A x \in pos : Cardinality({y \in pos : ch[y[1]][y[2]] = ch[x[1]][x[2]]}) <= 2
C18_AreaPreserved == (Done /\ Valid /\ InGridPoly) => \A k \in DOMAIN result :
     LET RECURSIVE Sum(_)
         Sum(r) == IF r > Len(poly) THEN 0 ELSE SignedArea2(RefChain(poly, r, k)) + Sum(r + 1)
     IN  VisitsOK(k) => TotalArea2(result[k]) = (IF rev THEN 0 - Sum(1) ELSE Sum(1))
=============================================================================
