------------------------------- MODULE Descent -------------------------------
(***************************************************************************)
(* Transcription of the quadtree descent of the point index                *)
(* (pointindex.go: snapClosestPoints, findIntersectingQuadrants with its   *)
(* infinite-quadrant case table, candidate order and mutex flag), using    *)
(* the exact pixel test Grid!MeetsSp where the code calls lineIntersects.  *)
(* Design theorem (MC_Descent): for every segment of the grid and every    *)
(* hot set the descent returns exactly Grid!Route -- the pruning, the      *)
(* "certain" shortcuts, the candidate order and the mutex are sound given  *)
(* an exact pixel test.  (This is what localised finding F1 to             *)
(* lineIntersects, and what a change of the case table must not break.)    *)
(***************************************************************************)
EXTENDS Grid
CONSTANT D                      \* deepest level: the grid has 2^D x 2^D pixels of S lattice units
Pow2(k) == 2 ^ k
SpanAt(l) == S * Pow2(D - l)    \* lattice units per quadrant of level l
(* a quadrant is <<level, x, y>> *)
MinOf(q) == <<q[2] * SpanAt(q[1]), q[3] * SpanAt(q[1])>>
Cen(q)   == <<q[2] * SpanAt(q[1]) + SpanAt(q[1]) \div 2, q[3] * SpanAt(q[1]) + SpanAt(q[1]) \div 2>>
Inside(q, p) == LET m == MinOf(q) sp == SpanAt(q[1]) IN m[1] <= p[1] /\ p[1] < m[1] + sp /\ m[2] <= p[2] /\ p[2] < m[2] + sp
LineMeets(a, b, q) == MeetsSp(a, b, <<q[2], q[3]>>, SpanAt(q[1]))
Child(q, i) == <<q[1] + 1, 2 * q[2] + (i % 2), 2 * q[3] + (i \div 2)>>
HasPoints(q, hot) == \E h \in hot : h[1] \div Pow2(D - q[1]) = q[2] /\ h[2] \div Pow2(D - q[1]) = q[3]
InfQ(p, c) == (IF p[1] >= c[1] THEN 1 ELSE 0) + (IF p[2] >= c[2] THEN 2 ELSE 0)
Xor1(i) == IF i % 2 = 0 THEN i + 1 ELSE i - 1          \* adjacentQuadrantX
Xor2(i) == IF i \div 2 = 0 THEN i + 2 ELSE i - 2       \* adjacentQuadrantY
Adjacent(i, j) == (i # j) /\ (Xor1(i) = j \/ Xor2(i) = j)

(* quadrantsToCheck: sequence of <<child index, certain, mutex>> (pointindex.go:270-324) *)
ToCheck(a, b, parent) ==
  LET c  == Cen(parent)
      i1 == InfQ(a, c)
      i2 == InfQ(b, c)
      in1 == Inside(parent, a)
      in2 == Inside(parent, b)
  IN  IF i1 = i2 THEN <<<<i1, in1 /\ in2, FALSE>>>>
      ELSE IF Adjacent(i1, i2) THEN <<<<i1, in1 /\ in2, FALSE>>, <<i2, in1 /\ in2, FALSE>>>>
      ELSE <<<<i1, in1, FALSE>>, <<Xor1(i1), FALSE, TRUE>>, <<Xor2(i1), FALSE, TRUE>>, <<i2, in2, FALSE>>>>

RECURSIVE Scan(_, _, _, _, _, _, _)
Scan(a, b, parent, hot, todo, k, mutexed) ==
  IF k > Len(todo) THEN <<>>
  ELSE LET t == todo[k]
           ch == Child(parent, t[1])
       IN  IF t[3] /\ mutexed THEN Scan(a, b, parent, hot, todo, k + 1, mutexed)
           ELSE IF ~HasPoints(ch, hot) THEN Scan(a, b, parent, hot, todo, k + 1, mutexed)
           ELSE IF t[2] \/ LineMeets(a, b, ch)
                THEN <<ch>> \o Scan(a, b, parent, hot, todo, k + 1, mutexed \/ t[3])
                ELSE Scan(a, b, parent, hot, todo, k + 1, mutexed)
Found(a, b, parent, hot) == Scan(a, b, parent, hot, ToCheck(a, b, parent), 1, FALSE)

RECURSIVE Expand(_, _, _, _, _)
Expand(a, b, parents, hot, k) == IF k > Len(parents) THEN <<>>
                                 ELSE Found(a, b, parents[k], hot) \o Expand(a, b, parents, hot, k + 1)
RECURSIVE Down(_, _, _, _, _)
Down(a, b, parents, hot, target) == IF parents = <<>> \/ parents[1][1] = target THEN parents
                                    ELSE Down(a, b, Expand(a, b, parents, hot, 1), hot, target)
Root == <<0, 0, 0>>
(* snapClosestPoints for one requested level *)
RouteByDescent(a, b, hot, level) ==
  IF ~LineMeets(a, b, Root) THEN <<>>
  ELSE LET qs == Down(a, b, <<Root>>, hot, level) IN [i \in 1..Len(qs) |-> <<qs[i][2], qs[i][3]>>]

(* ---- exhaustive model ---- *)
N == Pow2(D)
Lat == 0..(N * S - 1)
AllPix == {<<i, j>> : i, j \in 0..(N - 1)}
CONSTANT Modes
VARIABLES a, b, mode
Init == a \in Lat \X Lat /\ b = a /\ mode = "init"
Next == mode = "init" /\ a' = a /\ b' \in Lat \X Lat /\ mode' \in Modes
Spec == Init /\ [][Next]_<<a, b, mode>>
PixIdx(px) == px[1] + N * px[2]
HotOf == CASE mode = "all"  -> AllPix
           [] mode = "ends" -> {PixOf(a), PixOf(b)}
           [] mode = "mix"  -> {PixOf(a), PixOf(b)} \cup {p \in AllPix : (a[1] + 3 * a[2] + 5 * b[1] + 7 * b[2] + 11 * PixIdx(p)) % 3 = 0}
           [] OTHER -> {}
CoarseHot(hot, l) == {<<h[1] \div Pow2(D - l), h[2] \div Pow2(D - l)>> : h \in hot}
DescentIsRoute ==
  mode # "init" => \A l \in 1..D : RouteByDescent(a, b, HotOf, l) = RouteSp(a, b, CoarseHot(HotOf, l), SpanAt(l))
=============================================================================
