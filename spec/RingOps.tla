------------------------------ MODULE RingOps ------------------------------
(***************************************************************************)
(* Exact predicates on rings and polygons over lattice points (pairs of    *)
(* integers).  A ring is a sequence of points without closing duplicate;   *)
(* its edges are cyclic.  Used by Snap.tla / SnapTrace.tla for             *)
(* C01, C04, C05, C07, C18.                                                *)
(***************************************************************************)
EXTENDS Integers, Sequences, FiniteSets, SequencesExt

Sgn(x) == IF x > 0 THEN 1 ELSE IF x < 0 THEN -1 ELSE 0
Abs(x) == IF x < 0 THEN -x ELSE x
Cross(o, a, b) == (a[1] - o[1]) * (b[2] - o[2]) - (a[2] - o[2]) * (b[1] - o[1])
Dot(o, a, b)   == (a[1] - o[1]) * (b[1] - o[1]) + (a[2] - o[2]) * (b[2] - o[2])

(* p on the closed segment a-b *)
OnSeg(a, b, p) == /\ Cross(a, b, p) = 0
                  /\ (p[1] - a[1]) * (p[1] - b[1]) <= 0
                  /\ (p[2] - a[2]) * (p[2] - b[2]) <= 0

(* the open interiors of a-b and c-d cross in a single point (transversally) *)
ProperCross(a, b, c, d) ==
  /\ Sgn(Cross(a, b, c)) * Sgn(Cross(a, b, d)) < 0
  /\ Sgn(Cross(c, d, a)) * Sgn(Cross(c, d, b)) < 0

(* the closed segments share at least one point *)
SegsIntersect(a, b, c, d) ==
  \/ ProperCross(a, b, c, d)
  \/ OnSeg(a, b, c) \/ OnSeg(a, b, d) \/ OnSeg(c, d, a) \/ OnSeg(c, d, b)

Nxt(ring, i) == ring[(i % Len(ring)) + 1]
EdgesOf(ring) == {<<ring[i], Nxt(ring, i)>> : i \in 1..Len(ring)}

RECURSIVE Area2Acc(_, _, _)
Area2Acc(ring, i, acc) ==
  IF i > Len(ring) THEN acc
  ELSE Area2Acc(ring, i + 1, acc + ring[i][1] * Nxt(ring, i)[2] - Nxt(ring, i)[1] * ring[i][2])
SignedArea2(ring) == IF Len(ring) < 3 THEN 0 ELSE Area2Acc(ring, 1, 0)   \* twice the signed area, CCW positive
Orientation(ring) == Sgn(SignedArea2(ring))

Rotate(s, k) == [i \in 1..Len(s) |-> s[((i + k - 1) % Len(s)) + 1]]
CyclicEq(r1, r2) == /\ Len(r1) = Len(r2)
                    /\ (Len(r1) = 0 \/ \E k \in 0..(Len(r1) - 1) : Rotate(r1, k) = r2)
CyclicRevEq(r1, r2) == CyclicEq(Reverse(r1), r2)
Distinct(s) == \A i, j \in 1..Len(s) : i # j => s[i] # s[j]
SeqToSet(s) == {s[i] : i \in 1..Len(s)}

(* position of p relative to the ring: 1 inside, 0 on the boundary, -1 outside (even-odd rule, exact) *)
OnRing(ring, p) == \E i \in 1..Len(ring) : OnSeg(ring[i], Nxt(ring, i), p)
CrossingsRight(ring, p) ==
  Cardinality({i \in 1..Len(ring) :
     LET a == ring[i]
         b == Nxt(ring, i)
     IN  /\ (a[2] > p[2]) # (b[2] > p[2])
         /\ IF b[2] > a[2]
            THEN (p[1] - a[1]) * (b[2] - a[2]) < (b[1] - a[1]) * (p[2] - a[2])
            ELSE (p[1] - a[1]) * (b[2] - a[2]) > (b[1] - a[1]) * (p[2] - a[2])})
PointInRing(ring, p) == IF Len(ring) = 0 THEN -1
                        ELSE IF OnRing(ring, p) THEN 0
                        ELSE IF CrossingsRight(ring, p) % 2 = 1 THEN 1 ELSE -1

(* ---------------- validity of an input polygon (C01, C04, C07, C18 quantify over valid polygons) ------------- *)
RingSimple(r) ==
  /\ Len(r) >= 3
  /\ SignedArea2(r) # 0
  /\ \A i \in 1..Len(r) : r[i] # Nxt(r, i)
  /\ \A i, j \in 1..Len(r) : i < j =>
        LET a == r[i]
            b == Nxt(r, i)
            c == r[j]
            d == Nxt(r, j)
        IN  IF j = i + 1                                  \* consecutive: share only the vertex b = c
            THEN ~OnSeg(a, b, d) /\ ~OnSeg(c, d, a)
            ELSE IF i = 1 /\ j = Len(r)                   \* last and first edge share only d = a
            THEN ~OnSeg(a, b, c) /\ ~OnSeg(c, d, b)
            ELSE ~SegsIntersect(a, b, c, d)

RingsApart(r1, r2) == \A e \in EdgesOf(r1), f \in EdgesOf(r2) : ~SegsIntersect(e[1], e[2], f[1], f[2])

(* each ring simple, holes strictly inside the shell, holes mutually disjoint (strict reading: no touching) *)
ValidPolygon(poly) ==
  /\ Len(poly) >= 1
  /\ \A r \in 1..Len(poly) : RingSimple(poly[r])
  /\ \A h \in 2..Len(poly) :
        /\ RingsApart(poly[1], poly[h])
        /\ \A i \in 1..Len(poly[h]) : PointInRing(poly[1], poly[h][i]) = 1
  /\ \A h1, h2 \in 2..Len(poly) : h1 < h2 =>
        /\ RingsApart(poly[h1], poly[h2])
        /\ PointInRing(poly[h2], poly[h1][1]) = -1
        /\ PointInRing(poly[h1], poly[h2][1]) = -1

(* ---------------- output geometry predicates ---------------- *)
RingsOf(polys) == UNION {{<<p, r>> : r \in 1..Len(polys[p])} : p \in 1..Len(polys)}
RingAt(polys, pr) == polys[pr[1]][pr[2]]
AllEdges(polys) == UNION {EdgesOf(RingAt(polys, pr)) : pr \in RingsOf(polys)}

(* C01: no two boundary edges cross in their interiors *)
NoCrossing(polys) == LET E == AllEdges(polys)
                     IN  \A e \in E, f \in E : ~ProperCross(e[1], e[2], f[1], f[2])

(* covered by the geometry: inside or on some polygon's shell and not strictly inside one of its holes *)
InPolygonArea(poly, p) == /\ Len(poly) >= 1 /\ Len(poly[1]) >= 3
                          /\ PointInRing(poly[1], p) >= 0
                          /\ \A h \in 2..Len(poly) : PointInRing(poly[h], p) < 1
StrictlyInPolygon(poly, p) == /\ Len(poly) >= 1 /\ Len(poly[1]) >= 3
                              /\ PointInRing(poly[1], p) = 1
                              /\ \A h \in 2..Len(poly) : PointInRing(poly[h], p) = -1
TotalArea2(polys) == LET RECURSIVE Sum(_)
                         Sum(S) == IF S = {} THEN 0
                                   ELSE LET pr == CHOOSE x \in S : TRUE
                                        IN  SignedArea2(RingAt(polys, pr)) + Sum(S \ {pr})
                     IN Sum(RingsOf(polys))

(* ---------------- closed-box test (C04: Chebyshev distance) ---------------- *)
(* the closed segment a-b meets the closed axis-parallel box [x0,x1] x [y0,y1] (all bounds closed) *)
FracLess(p, q) == p[1] * q[2] < q[1] * p[2]
FracLeq(p, q)  == p[1] * q[2] <= q[1] * p[2]
FMax(p, q) == IF FracLess(p, q) THEN q ELSE p
FMin(p, q) == IF FracLess(p, q) THEN p ELSE q
AxisLoC(a, d, m0, m1) == IF d > 0 THEN <<m0 - a, d>> ELSE IF d < 0 THEN <<a - m1, -d>> ELSE <<0, 1>>
AxisHiC(a, d, m0, m1) == IF d > 0 THEN <<m1 - a, d>> ELSE IF d < 0 THEN <<a - m0, -d>> ELSE <<1, 1>>
SegMeetsBox(a, b, x0, x1, y0, y1) ==
  /\ (b[1] # a[1] \/ (x0 <= a[1] /\ a[1] <= x1))
  /\ (b[2] # a[2] \/ (y0 <= a[2] /\ a[2] <= y1))
  /\ LET lo == FMax(<<0, 1>>, FMax(AxisLoC(a[1], b[1] - a[1], x0, x1), AxisLoC(a[2], b[2] - a[2], y0, y1)))
         hi == FMin(<<1, 1>>, FMin(AxisHiC(a[1], b[1] - a[1], x0, x1), AxisHiC(a[2], b[2] - a[2], y0, y1)))
     IN  FracLeq(lo, hi)

(* Chebyshev distance from p to the boundary (set of edges) is <= h *)
NearBoundary(E, p, h) == \E e \in E : SegMeetsBox(e[1], e[2], p[1] - h, p[1] + h, p[2] - h, p[2] + h)
=============================================================================
