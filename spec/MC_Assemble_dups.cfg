\* many copies of two nested boxes: groups of equal rings with several deletions in one list (dedupeInnersOuters / DeleteFromSliceByIndex)
CONSTANTS Size = 4  MaxOuters = 4  MaxInners = 3  CatSel = {2, 6}
SPECIFICATION Spec
INVARIANTS RegularRight Conserves Emit
CHECK_DEADLOCK FALSE
