---------------------------- MODULE AssembleTrace ----------------------------
(***************************************************************************)
(* Records of the real dedupeInnersOuters + matchInnersToPolygons (driver  *)
(* assemble-replay) on the loop configurations Assemble.tla enumerates.    *)
(* AsTranscribed binds the transcription: the real functions return what   *)
(* CodeAssembly computes, ring for ring.  RegularRight is the contract in  *)
(* the property's terms, evaluated on the REAL result: on inputs a         *)
(* boundary visiting every centre at most twice can produce, every hole    *)
(* lies in its shell and exactly the enclosed locations are covered.       *)
(***************************************************************************)
EXTENDS Integers, Sequences, FiniteSets, TLC, Json
Trace == ndJsonDeserialize("assemble_trace.ndjson")
A == INSTANCE Assemble WITH Size <- 4, MaxOuters <- 0, MaxInners <- 0, CatSel <- {}, os <- <<>>, is <- <<>>
VARIABLE l
Init == l \in 1..Len(Trace)
Next == UNCHANGED l
Spec == Init /\ [][Next]_l
R == Trace[l]
NoPanic == R.out = "ok"
AsTranscribed == R.out = "ok" => R.got = A!CodeAssembly(R.os, R.is)
RegularRight == (R.out = "ok" /\ A!Regular(R.os, R.is)) => (A!HolesInShells(R.got) /\ A!CoverageRight(R.os, R.is, R.got))
=============================================================================
