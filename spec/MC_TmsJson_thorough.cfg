\* every document two mutations deep
CONSTANTS Depth = 2
SPECIFICATION Spec
INVARIANTS EmitVec
PROPERTIES Monotone
CHECK_DEADLOCK FALSE
