SPECIFICATION Spec
INVARIANTS NoPanic EndPixelsAreRouted
CHECK_DEADLOCK FALSE
