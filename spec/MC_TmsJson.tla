---------------------------- MODULE MC_TmsJson ----------------------------
EXTENDS TmsJson, Json
SeqOf(S) == LET RECURSIVE F(_)
                F(T) == IF T = {} THEN <<>> ELSE LET x == CHOOSE y \in T : TRUE IN <<[w |-> x[1], f |-> x[2], op |-> x[3]]>> \o F(T \ {x})
            IN F(S)
EmitVec == PrintT(<<"VEC", ToJson([muts |-> SeqOf(muts), class |-> Class(muts)])>>)
=============================================================================
