CONSTANTS S = 4  Stride = 16  GroupMax = 14  MaxRun = 12
SPECIFICATION Spec
INVARIANTS EmitStats ProjectionExact C07_Deterministic C07_InputUntouched C07_RingDirection C07_ReverseFlag
CHECK_DEADLOCK FALSE
