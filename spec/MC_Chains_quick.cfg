\* 4 labels, length <= 9
CONSTANTS Labels = 4  MaxLen = 9
SPECIFICATION Spec
INVARIANTS EmitVec
CHECK_DEADLOCK FALSE
