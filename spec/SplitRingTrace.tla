--------------------------- MODULE SplitRingTrace ---------------------------
(***************************************************************************)
(* Records of the real snap.splitRing (driver split-replay) on the rings   *)
(* and hit-multiple sets SplitRing.tla enumerates, as outer and as inner   *)
(* ring.  AsTranscribed binds the transcription ring for ring; NoPanic and *)
(* the two contract clauses are evaluated on the REAL result.              *)
(***************************************************************************)
EXTENDS Integers, Sequences, FiniteSets, TLC, Json
Trace == ndJsonDeserialize("split_trace.ndjson")
S == INSTANCE SplitRing WITH Labels <- {}, MaxLen <- 0, ring <- <<>>, hm <- {}, phase <- ""
VARIABLE l
Init == l \in 1..Len(Trace)
Next == UNCHANGED l
Spec == Init /\ [][Next]_l
R == Trace[l]
HM == {R.hm[i] : i \in 1..Len(R.hm)}
Exp == S!CodeSplit(R.ring, R.outer, HM)
NoPanic == R.out = "ok"
AsTranscribed == IF R.out = "ok" THEN Exp.panic = "" /\ R.o = Exp.o /\ R.i = Exp.i /\ R.p = Exp.p ELSE Exp.panic # ""
All == R.o \o R.i \o R.p
(* nothing invented, nothing lost (orientation changes reverse a loop: count undirected) *)
Und(loops, a, b) == S!EdgeCount(loops, <<a, b>>) + S!EdgeCount(loops, <<b, a>>)
ConservesEdges == R.out = "ok" => \A a, b \in S!SeqToSet(R.ring) : a # b =>
                     Und(All, a, b) = S!DirEdges(R.ring)[<<a, b>>] + S!DirEdges(R.ring)[<<b, a>>]
SimpleLoops == R.out = "ok" => S!LoopsSimple(All)
=============================================================================
