-------------------------------- MODULE Grid --------------------------------
(***************************************************************************)
(* The pixel grid of texel's point index on an integer lattice, and the    *)
(* routing of an edge through the occupied ("hot") pixels it meets         *)
(* (pointindex.go: containsPoint, lineIntersects, snapClosestPoints,       *)
(* findIntersectingQuadrants).  C02, C09; used by Snap.tla for C01..C08.   *)
(*                                                                         *)
(* Lattice: S lattice units per pixel (S even, so centres are lattice      *)
(* points).  A pixel <<i,j>> is the half-open square                       *)
(*      [i*S, (i+1)*S) x [j*S, (j+1)*S)                                     *)
(* owning its left and bottom sides but not its right and top sides.       *)
(* Everything is exact integer arithmetic (cross-multiplied fractions).    *)
(***************************************************************************)
EXTENDS Integers, FiniteSets, Sequences, SequencesExt, TLC

CONSTANT S          \* lattice units per pixel (even)

Pt(x, y) == <<x, y>>

(* floor division for possibly negative numerators (TLA+ \div floors for positive divisors) *)
Floor(a, d) == a \div d
PixOf(p)     == <<Floor(p[1], S), Floor(p[2], S)>>
Centre(px)   == <<px[1] * S + S \div 2, px[2] * S + S \div 2>>
PixContains(px, p) == /\ px[1] * S <= p[1] /\ p[1] < px[1] * S + S
                   /\ px[2] * S <= p[2] /\ p[2] < px[2] * S + S
CoarsePix(px, k) == <<Floor(px[1], k), Floor(px[2], k)>>    \* pixel k times coarser containing px

(* ---------------- exact parametric clip ---------------- *)
(* A bound on the parameter t of a + t(b-a) is <<num, den, open>> with den > 0. *)
FLess(p, q) == p[1] * q[2] < q[1] * p[2]
FEq(p, q)   == p[1] * q[2] = q[1] * p[2]
MaxLo(p, q) == IF FLess(p, q) THEN q ELSE IF FLess(q, p) THEN p ELSE IF p[3] THEN p ELSE q
MinHi(p, q) == IF FLess(p, q) THEN p ELSE IF FLess(q, p) THEN q ELSE IF p[3] THEN p ELSE q

(* { t : m0 <= a + t*d < m1 } as lower / upper bound; closed on the side the pixel owns *)
AxisLo(a, d, m0, m1) == IF d > 0 THEN <<m0 - a, d, FALSE>>
                        ELSE IF d < 0 THEN <<a - m1, -d, TRUE>> ELSE <<0, 1, FALSE>>
AxisHi(a, d, m0, m1) == IF d > 0 THEN <<m1 - a, d, TRUE>>
                        ELSE IF d < 0 THEN <<a - m0, -d, FALSE>> ELSE <<1, 1, FALSE>>
AxisOk(a, d, m0, m1) == d # 0 \/ (m0 <= a /\ a < m1)

(* pixel px with span sp (lattice units): [px*sp, px*sp+sp) in both axes *)
Lo(a, b, px, sp) == MaxLo(<<0, 1, FALSE>>,
                      MaxLo(AxisLo(a[1], b[1] - a[1], px[1] * sp, px[1] * sp + sp),
                            AxisLo(a[2], b[2] - a[2], px[2] * sp, px[2] * sp + sp)))
Hi(a, b, px, sp) == MinHi(<<1, 1, FALSE>>,
                      MinHi(AxisHi(a[1], b[1] - a[1], px[1] * sp, px[1] * sp + sp),
                            AxisHi(a[2], b[2] - a[2], px[2] * sp, px[2] * sp + sp)))

(* the closed segment a-b meets the half-open pixel px of span sp *)
MeetsSp(a, b, px, sp) ==
  /\ AxisOk(a[1], b[1] - a[1], px[1] * sp, px[1] * sp + sp)
  /\ AxisOk(a[2], b[2] - a[2], px[2] * sp, px[2] * sp + sp)
  /\ LET lo == Lo(a, b, px, sp)
         hi == Hi(a, b, px, sp)
     IN  FLess(lo, hi) \/ (FEq(lo, hi) /\ ~lo[3] /\ ~hi[3])
Meets(a, b, px) == MeetsSp(a, b, px, S)

(* order of travel from a to b: the parameter intervals of two distinct pixels are disjoint *)
BeforeSp(a, b, p, q, sp) == LET lp == Lo(a, b, p, sp)
                                lq == Lo(a, b, q, sp)
                            IN  FLess(lp, lq) \/ (FEq(lp, lq) /\ ~lp[3] /\ lq[3])
Before(a, b, p, q) == BeforeSp(a, b, p, q, S)

(* Route: the hot pixels met, in order of travel *)
RouteSp(a, b, hot, sp) == SetToSortSeq({p \in hot : MeetsSp(a, b, p, sp)},
                                       LAMBDA p, q : BeforeSp(a, b, p, q, sp))
Route(a, b, hot) == RouteSp(a, b, hot, S)

(* ---------------- the grid as a whole (C09) ---------------- *)
(* A grid of N x N pixels is the half-open square [0, N*S)^2: left and bottom borders belong to it. *)
InGrid(p, N) == /\ 0 <= p[1] /\ p[1] < N * S /\ 0 <= p[2] /\ p[2] < N * S
(* What SnapPolygon must do with a polygon (C09): *)
Outcome(vertices, N, ignoreOutside) ==
  IF \A i \in DOMAIN vertices : InGrid(vertices[i], N) THEN "snapped"
  ELSE IF ignoreOutside THEN "empty" ELSE "panic-outside-grid"

(* ---------------- brute-force cross-check of Meets (used by MC_GridSelf) ---------------- *)
(* On a lattice refined by the factor K the segment a-b (scaled by K) meets the pixel iff some     *)
(* lattice point of the refined segment lies in it, provided K resolves every crossing: we use it   *)
(* only as a one-directional sanity lemma (a lattice point of the segment inside => Meets).         *)
OnSegment(a, b, p) == /\ (b[1] - a[1]) * (p[2] - a[2]) = (b[2] - a[2]) * (p[1] - a[1])
                      /\ (p[1] - a[1]) * (p[1] - b[1]) <= 0
                      /\ (p[2] - a[2]) * (p[2] - b[2]) <= 0
=============================================================================
