---------------------------- MODULE PagingTrace ----------------------------
(***************************************************************************)
(* Trace validation for C12: observations of a REAL TargetGeopackage       *)
(* (SQLite file read back through a second connection) against Paging.tla. *)
(*   Reset   inputs of the case: page size, count, per feature: empty       *)
(*           geometry? integer bounding box                                 *)
(*   Sent j rows   after the j-th send on the channel returned: committed   *)
(*           row count seen by the second connection                        *)
(*   Done    final projection of the file: for every row the source         *)
(*           feature it equals (attributes incl. NULL, geometry), spatial   *)
(*           index row ids, recorded extent, schema comparisons             *)
(* The flush of a full page is an unlogged step: when send j returns the    *)
(* writer has finished feature j-1 completely and may or may not have       *)
(* written the page that feature j completes.                               *)
(***************************************************************************)
EXTENDS Integers, Sequences, FiniteSets, TLC, Json

Trace == ndJsonDeserialize("paging_trace.ndjson")
MaxCount == 1000
MaxP == 1000
VARIABLES P, count, Empty, sent, buffer, rows, rtree, txs, pc
G == INSTANCE Paging
VARIABLES l, run
gvars == <<P, count, Empty, sent, buffer, rows, rtree, txs, pc>>
tvars == <<gvars, l, run>>

ASSUME TLCSet(1, 0)
Ev == Trace[l]
Is(e) == l <= Len(Trace) /\ Ev.e = e
SetOf(s) == {s[i] : i \in 1..Len(s)}
Min(S) == CHOOSE x \in S : \A y \in S : x <= y
Max(S) == CHOOSE x \in S : \A y \in S : x >= y

TraceInit == /\ P = 1 /\ count = 0 /\ Empty = {} /\ sent = 0 /\ buffer = <<>> /\ rows = <<>> /\ rtree = {} /\ txs = 1
             /\ pc = "done" /\ l = 1 /\ run = [count |-> 0]

TReset == /\ Is("Reset") /\ pc = "done"
          /\ Ev.read = Ev.count                          \* the reader delivered every source row
          /\ P' = Ev.P /\ count' = Ev.count
          /\ Empty' = {i \in 1..Ev.count : Ev.feat[i].empty}
          /\ sent' = 0 /\ buffer' = <<>> /\ rows' = <<>> /\ rtree' = {} /\ txs' = 0 /\ pc' = "recv"
          /\ run' = Ev /\ l' = l + 1
(* pending page flush has priority (deterministic, keeps validation linear) *)
TFlush == pc = "flush" /\ G!FlushFull /\ l' = l /\ UNCHANGED run
TSent  == /\ pc = "recv" /\ Is("Sent") /\ Ev.j = sent + 1 /\ G!Recv
          /\ Ev.rows \in {Len(rows), IF Len(buffer) + 1 = P THEN Len(rows) + P ELSE Len(rows)}
          /\ l' = l + 1 /\ UNCHANGED run
Boxes == {run.feat[i].bbox : i \in (1..count) \ Empty}
ExpExtent == IF Boxes = {} THEN <<>>
             ELSE <<Min({b[1] : b \in Boxes}), Min({b[2] : b \in Boxes}), Max({b[3] : b \in Boxes}), Max({b[4] : b \in Boxes})>>
TDone  == /\ pc = "recv" /\ Is("Done") /\ G!FlushFinal
          /\ ~Ev.missing
          /\ Ev.rowsrc = G!Iota(count)                          \* one row per feature, in order, values and geometry intact
          /\ SetOf(Ev.rtree) = (1..count) \ Empty /\ Len(Ev.rtree) = Cardinality((1..count) \ Empty)
          /\ Ev.extent_exact /\ Ev.extent = ExpExtent           \* recorded extent = bounding box of all written geometries
          /\ Ev.columns_ok /\ Ev.geomcol_ok /\ Ev.geomtype_ok /\ Ev.srs_ok /\ Ev.contents_ok
          /\ l' = l + 1 /\ UNCHANGED run
TraceNext == TReset \/ TFlush \/ TSent \/ TDone
TraceSpec == TraceInit /\ [][TraceNext]_tvars

Track == TLCSet(1, IF l > TLCGet(1) THEN l ELSE TLCGet(1))
TraceAccepted == IF TLCGet(1) = Len(Trace) + 1 THEN TRUE ELSE PrintT(<<"HWM", TLCGet(1), Len(Trace)>>) /\ FALSE
Conserved == G!Conserved
Complete  == G!Complete
=============================================================================
