CONSTANTS S = 4  Stride = 16  GroupMax = 14  MaxRun = 12
SPECIFICATION Spec
INVARIANTS EmitStats ProjectionExact StepsRecorded S1_SegmentIsRoute S2_RingIsConcatenation
CHECK_DEADLOCK FALSE
