------------------------------ MODULE CliTrace ------------------------------
(***************************************************************************)
(* Trace validation for C13: each record is one run of the REAL texel      *)
(* binary (built from the working tree with -tags verif) on a random       *)
(* source GeoPackage, together with what the snapping library itself       *)
(* returns for every source feature (direct call by the harness) and a     *)
(* projection of every file found in the output directory.                 *)
(* Which files must exist, which rows each table must hold, the geometry   *)
(* class and for which tile matrix a row's geometry must be the library's  *)
(* are decided here (Cli!TargetPath, Cli!ExpRows, Cli!ExpClass).           *)
(***************************************************************************)
EXTENDS Integers, Sequences, FiniteSets, TLC, Json, CliPath

Trace == ndJsonDeserialize("cli_trace.ndjson")
VARIABLE l
Init == l \in 1..Len(Trace)
Next == UNCHANGED l
Spec == Init /\ [][Next]_l
R == Trace[l]
C == R.case
SetOf(s) == {s[i] : i \in 1..Len(s)}

ExpRows(t, k) == IF t.kind = "other" THEN [i \in 1..Len(t.lib) |-> i]
                 ELSE SelectSeq([i \in 1..Len(t.lib) |-> i], LAMBDA i : t.lib[i][k] > 0)
ExpClass(t, i, k) == IF t.kind = "other" THEN "O" ELSE IF t.kind = "multi" THEN "MP" ELSE IF t.lib[i][k] = 1 THEN "P" ELSE "MP"
MustFail == ~C.valid_tms \/ (C.any_outside /\ ~C.iog)

(* exit status *)
ExitStatus == (R.exit = 0) = ~MustFail
(* validation gate: a rejected tile matrix set means no work at all (no new file) *)
ValidationGate == ~C.valid_tms => (R.exit # 0 /\ Len(R.files) = 0)      \* (that validation must not panic is C14)
(* exactly one file per requested tile matrix, named by inserting _<id> before the extension *)
ExpFiles == {TargetPath(R.target_chars, C.ids[k]) : k \in 1..Len(C.ids)}
FileSet == R.exit = 0 => SetOf(R.files) = ExpFiles
(* content of every file *)
FileOf_(k) == CHOOSE f \in SetOf(R.out) : f.path = TargetPath(R.target_chars, C.ids[k])
TableOf(f, name) == CHOOSE t \in SetOf(f.tables) : t.name = name
Content ==
  (R.exit = 0 /\ SetOf(R.files) = ExpFiles) =>
    \A k \in 1..Len(C.ids) :
      LET f == FileOf_(k)
      IN  /\ {t.name : t \in SetOf(f.tables)} = {s.name : s \in SetOf(R.src)}      \* nothing old survives, nothing missing
          /\ \A s \in SetOf(R.src) :
               LET t == TableOf(f, s.name)
                   exp == ExpRows(s, k)
               IN  /\ Len(t.rows) = Len(exp)
                   /\ \A j \in 1..Len(exp) :
                        /\ t.rows[j].src = exp[j]                                  \* source order, attributes intact
                        /\ t.rows[j].cls = ExpClass(s, exp[j], k)
                        /\ IF s.kind = "other" THEN t.rows[j].match                 \* row-for-row copy
                           ELSE k \in SetOf(t.rows[j].ids)                         \* the library's geometry for THIS tile matrix
                   /\ t.columns_ok /\ t.geommeta_ok
                   /\ t.rtree = t.nonempty
(* C03, last sentence: the deviation the tool reports when it validates the set is the one of the deepest requested tile matrix
   (computed by the harness with pointindex.DeviationStats; the tool prints it with six decimals when it is a pixel or more) *)
Abs(x) == IF x < 0 THEN 0 - x ELSE x
DeviationReported ==
  C.valid_tms => /\ R.dev.warned = R.dev.need
                 /\ R.dev.warned => (R.dev.matrix = R.dev.maxid /\ Abs(R.dev.micro - R.dev.exp_micro) <= 1)
NoLibPanicOnSuccess == R.exit = 0 => ~R.lib_panic
=============================================================================
