--------------------------------- MODULE Kmp ---------------------------------
(***************************************************************************)
(* kmpTable / kmpSearch / kmpSearchAll of snap/snap.go (C06: "never        *)
(* panics, indexes out of range or loops forever"; anchors kmpSearch /     *)
(* kmpTable), one action per loop iteration of the code, 0-based indices   *)
(* as in the code.                                                         *)
(*                                                                         *)
(* The code is NOT the textbook algorithm: on a mismatch with table[i] > -1*)
(* it executes                                                             *)
(*        i = table[i]                                                     *)
(*        m = m + i - table[i]                                             *)
(* in this order, so m advances by t - table[t] (t the new i) instead of   *)
(* (old i) - t.  The deviation is modelled as what it is (Variant =        *)
(* "coded"); Variant = "kmp" is the textbook order.  TLC establishes for   *)
(* both: every index is in range, every iteration makes progress (so the   *)
(* loops end), the coded variant never reports later than the first true   *)
(* occurrence, and - within the bounds - it differs from the true search   *)
(* only by a premature false match for patterns of six or more labels.     *)
(***************************************************************************)
EXTENDS Integers, Sequences, FiniteSets, TLC, Json

At(s, i) == s[i + 1]                       \* s[i] of the Go code
Max2(a, b) == IF a > b THEN a ELSE b
Drop(s, n) == SubSeq(s, n + 1, Len(s))     \* s[n:]

(* ---------------- the true search (what the comment of kmpSearch promises) ---------------- *)
IsOcc(c, f, p) == p + Len(f) <= Len(c) /\ \A k \in 0..(Len(f) - 1) : At(c, p + k) = At(f, k)
FirstOcc(c, f) == IF \E p \in 0..Len(c) : IsOcc(c, f, p)
                  THEN CHOOSE p \in 0..Len(c) : IsOcc(c, f, p) /\ \A q \in 0..(p - 1) : ~IsOcc(c, f, q)
                  ELSE Len(c)
RECURSIVE TrueAllFrom(_, _, _)
TrueAllFrom(c, f, off) ==                   \* kmpSearchAll with a correct kmpSearch
  LET p == FirstOcc(c, f)
  IN  IF p = Len(c) THEN <<>>
      ELSE LET rest == Drop(c, p + Len(f))
           IN  <<p + off>> \o (IF Len(rest) < Len(f) THEN <<>> ELSE TrueAllFrom(rest, f, off + p + Len(f)))
TrueAll(c, f) == TrueAllFrom(c, f, 0)
(* longest proper border of the prefix of length n *)
Border(f, n) == CHOOSE b \in 0..(n - 1) : /\ \A k \in 0..(b - 1) : At(f, k) = At(f, n - b + k)
                                          /\ \A b2 \in (b + 1)..(n - 1) : \E k \in 0..(b2 - 1) : At(f, k) # At(f, n - b2 + k)

(* ---------------- the code, one loop iteration per step ---------------- *)
(* kmpTable: state [pos, cnd, table]; table has max(len(corpus), 2) entries, all zero, then table[0], table[1] = -1, 0 *)
TableInit(size) == [pos |-> 2, cnd |-> 0, table |-> [k \in 0..(size - 1) |-> IF k = 0 THEN -1 ELSE 0]]
TableDone(f, st) == st.pos >= Len(f)
TableSafe(f, st) == /\ st.pos \in DOMAIN st.table /\ st.cnd \in DOMAIN st.table
                    /\ st.pos - 1 \in 0..(Len(f) - 1) /\ st.cnd \in 0..(Len(f) - 1)
TableStep(f, st) ==
  IF At(f, st.pos - 1) = At(f, st.cnd)
  THEN [pos |-> st.pos + 1, cnd |-> st.cnd + 1, table |-> [st.table EXCEPT ![st.pos] = st.cnd + 1]]
  ELSE IF st.cnd > 0 THEN [st EXCEPT !.cnd = st.table[st.cnd]]
  ELSE [st EXCEPT !.pos = st.pos + 1, !.table = [st.table EXCEPT ![st.pos] = 0]]

(* kmpSearch: state [m, i]; result r >= 0 once found / exhausted (r = -1: still running) *)
SearchSafe(c, f, tb, s) == /\ s.i \in 0..(Len(f) - 1) /\ s.m + s.i \in 0..(Len(c) - 1) /\ s.i \in DOMAIN tb
                           /\ (tb[s.i] > -1 => tb[s.i] \in DOMAIN tb)
SearchStep(variant, c, f, tb, s) ==
  IF s.m + s.i >= Len(c) THEN [s EXCEPT !.r = Len(c)]
  ELSE IF At(f, s.i) = At(c, s.m + s.i)
       THEN IF s.i = Len(f) - 1 THEN [s EXCEPT !.r = s.m] ELSE [s EXCEPT !.i = s.i + 1]
       ELSE IF tb[s.i] > -1
            THEN LET t == tb[s.i]
                 IN  IF variant = "coded" THEN [s EXCEPT !.i = t, !.m = s.m + t - tb[t]]      \* i overwritten first (snap.go)
                     ELSE [s EXCEPT !.i = t, !.m = s.m + s.i - t]                             \* textbook
            ELSE [s EXCEPT !.i = 0, !.m = s.m + 1]

(* ---------------- pure evaluation (used by KmpTrace) ---------------- *)
RECURSIVE TableRun(_, _)
TableRun(f, st) == IF TableDone(f, st) THEN st.table ELSE TableRun(f, TableStep(f, st))
RECURSIVE SearchRun(_, _, _, _, _)
SearchRun(variant, c, f, tb, s) == IF s.r >= 0 THEN s.r ELSE SearchRun(variant, c, f, tb, SearchStep(variant, c, f, tb, s))
Search(variant, c, f) == SearchRun(variant, c, f, TableRun(f, TableInit(Max2(Len(c), 2))), [m |-> 0, i |-> 0, r |-> -1])
RECURSIVE AllFrom(_, _, _, _)
AllFrom(variant, c, f, off) ==
  LET p == Search(variant, c, f)
  IN  IF p = Len(c) THEN <<>>
      ELSE LET rest == Drop(c, p + Len(f))
           IN  <<p + off>> \o (IF Len(rest) < Len(f) THEN <<>> ELSE AllFrom(variant, rest, f, off + p + Len(f)))
All(variant, c, f) == AllFrom(variant, c, f, 0)

(* ---------------- the state machine (MC_Kmp) ---------------- *)
CONSTANTS Alphabet, MaxFind, MaxCorpus, Variant, EmitMax
VARIABLES corpus, find, rest, off, matches, pc, tst, sst
vars == <<corpus, find, rest, off, matches, pc, tst, sst>>

SeqsUpTo(n) == UNION {[1..k -> Alphabet] : k \in 0..n}
NoSearch == [m |-> 0, i |-> 0, r |-> -1]
Init == /\ find \in SeqsUpTo(MaxFind) /\ corpus \in SeqsUpTo(MaxCorpus)
        /\ 1 <= Len(find) /\ Len(find) <= Len(corpus)          \* precondition: kmpDeduplicate's corpus starts with the segment itself
        /\ rest = corpus /\ off = 0 /\ matches = <<>> /\ pc = "table"
        /\ tst = TableInit(Max2(Len(corpus), 2)) /\ sst = NoSearch

TableAct == /\ pc = "table"
            /\ IF TableDone(find, tst) THEN pc' = "search" /\ UNCHANGED tst
               ELSE IF ~TableSafe(find, tst) THEN pc' = "panic" /\ UNCHANGED tst
               ELSE tst' = TableStep(find, tst) /\ UNCHANGED pc
            /\ UNCHANGED <<corpus, find, rest, off, matches, sst>>
SearchAct == /\ pc = "search" /\ sst.r < 0
             /\ IF sst.m + sst.i < Len(rest) /\ ~SearchSafe(rest, find, tst.table, sst) THEN pc' = "panic" /\ UNCHANGED sst
                ELSE sst' = SearchStep(Variant, rest, find, tst.table, sst) /\ UNCHANGED pc
             /\ UNCHANGED <<corpus, find, rest, off, matches, tst>>
ReturnAct == /\ pc = "search" /\ sst.r >= 0                 \* back in kmpSearchAll
             /\ IF sst.r = Len(rest) THEN pc' = "done" /\ UNCHANGED <<rest, off, matches, tst, sst>>
                ELSE LET nrest == Drop(rest, sst.r + Len(find))
                     IN  /\ matches' = Append(matches, sst.r + off)
                         /\ off' = off + sst.r + Len(find)
                         /\ rest' = nrest
                         /\ IF Len(nrest) < Len(find) THEN pc' = "done" /\ UNCHANGED <<tst, sst>>
                            ELSE pc' = "table" /\ tst' = TableInit(Max2(Len(nrest), 2)) /\ sst' = NoSearch
             /\ UNCHANGED <<corpus, find>>
Stop == pc \in {"done", "panic"} /\ UNCHANGED vars
Next == TableAct \/ SearchAct \/ ReturnAct \/ Stop
Spec == Init /\ [][Next]_vars

(* ---------------- what TLC establishes ---------------- *)
IndexSafe == pc # "panic"
(* the failure table of the first search is the border function *)
TableIsBorder == (pc = "search" /\ rest = corpus) =>
                    \A p \in 1..(Len(find) - 1) : tst.table[p] = Border(find, p)
(* every iteration makes progress: the table loop in (pos, -cnd), the search loop in (m, i) lexicographically; with the
   loop bounds pos < len(find) and m + i < len(corpus) this is termination *)
Progress == [][ /\ (pc = "table" /\ pc' = "table" /\ tst' # tst) =>
                     (tst'.pos > tst.pos \/ (tst'.pos = tst.pos /\ tst'.cnd < tst.cnd))
                /\ (pc = "search" /\ pc' = "search" /\ sst.r < 0 /\ sst'.r < 0) =>
                     (sst'.m > sst.m \/ (sst'.m = sst.m /\ sst'.i = sst.i + 1)) ]_vars
Shape == pc = "done" =>
           /\ \A k \in 1..Len(matches) : matches[k] + Len(find) <= Len(corpus)
           /\ \A k \in 1..(Len(matches) - 1) : matches[k] + Len(find) <= matches[k + 1]
FirstRes == IF matches = <<>> THEN Len(corpus) ELSE matches[1]
NeverLate == pc = "done" => FirstRes <= FirstOcc(corpus, find)
(* the textbook variant is the true search; the coded variant differs only for long patterns, by a premature false match *)
Deviation == matches # TrueAll(corpus, find)
Exact == pc = "done" => ~Deviation
DeviationOnlyLong == (pc = "done" /\ Deviation) =>
                        /\ Len(find) >= 6
                        /\ \E k \in 1..Len(matches) : ~IsOcc(corpus, find, matches[k])
Emit == (pc = "done" /\ (Deviation \/ Len(corpus) <= EmitMax)) =>
           PrintT(<<"VEC", ToJson([corpus |-> corpus, find |-> find, coded |-> All("coded", corpus, find), true |-> TrueAll(corpus, find)])>>)
=============================================================================
