\* every triangle on the 5x5 lattice of a 2x2-pixel grid (border vertices included), all flags, every non-empty subset of two levels
CONSTANTS S = 2  N = 2  Ks = {0, 1}  Shape = "tri"  InputPolys <- MCInputs  Impl = "code"
SPECIFICATION MCSpec
INVARIANTS C06_Total C09_Reject C01_NoCrossing C05_WellFormed C04_VerticesAreCentres C07C08_FunctionOfLevel C18_AreaPreserved
