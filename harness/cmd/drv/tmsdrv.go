package main

import (
	"flag"
	"math"
	"math/big"
	"math/rand"
	"sort"
	"strconv"
	"strings"

	"github.com/go-spatial/geom"
	"github.com/go-spatial/geom/slippy"
	"github.com/pdok/texel/pointindex"
	"github.com/pdok/texel/tms20"
)

func init() {
	register("tms-quad-trace", tmsQuadTrace)
	register("tms-addr-trace", tmsAddrTrace)
}

var builtinSets = []string{"CDB1GlobalGrid", "CanadianNAD83_LCC", "EuropeanETRS89_LAEAQuad", "GNOSISGlobalGrid", "LINZAntarticaMapTilegrid",
	"NZTM2000Quad", "NetherlandsRDNewQuad", "UPSAntarcticWGS84Quad", "UPSArcticWGS84Quad", "UTM31WGS84Quad", "WGS1984Quad",
	"WebMercatorQuad", "WorldCRS84Quad", "WorldMercatorWGS84Quad"}

type absMatrix struct {
	ID    int    `json:"id"`
	MW    int    `json:"mw"`
	MH    int    `json:"mh"`
	TW    int    `json:"tw"`
	TH    int    `json:"th"`
	SO    bool   `json:"so"`
	SC    bool   `json:"sc"`
	Ratio string `json:"ratio"`
	VMW   bool   `json:"vmw"`
}

func sortedIDs(t tms20.TileMatrixSet) []int {
	ids := make([]int, 0, len(t.TileMatrices))
	for id := range t.TileMatrices {
		ids = append(ids, id)
	}
	sort.Ints(ids)
	return ids
}

// projectTMS maps a tile matrix set value onto the abstract matrices of TmsQuad.tla
func projectTMS(t tms20.TileMatrixSet) []absMatrix {
	out := []absMatrix{}
	ids := sortedIDs(t)
	for k, id := range ids {
		tm := t.TileMatrices[id]
		m := absMatrix{ID: id, MW: int(tm.MatrixWidth), MH: int(tm.MatrixHeight), TW: int(tm.TileWidth), TH: int(tm.TileHeight),
			SO: true, SC: true, Ratio: "first", VMW: len(tm.VariableMatrixWidths) != 0}
		if k > 0 {
			p := t.TileMatrices[ids[k-1]]
			m.SO = *tm.PointOfOrigin == *p.PointOfOrigin
			m.SC = tm.CornerOfOrigin == p.CornerOfOrigin
			a := new(big.Rat).SetFloat64(p.CellSize)
			b := new(big.Rat).SetFloat64(tm.CellSize)
			r := new(big.Rat).Quo(a, b)
			switch {
			case r.Cmp(big.NewRat(2, 1)) == 0:
				m.Ratio = "exact"
			case r.Cmp(big.NewRat(199, 100)) >= 0 && r.Cmp(big.NewRat(201, 100)) <= 0:
				m.Ratio = "tol"
			default:
				m.Ratio = "off"
			}
		}
		out = append(out, m)
	}
	return out
}

// validateLikeMain composes the two library calls exactly as main.validateTileMatrixSet does
func validateLikeMain(t tms20.TileMatrixSet) (verdict string, msg string) {
	defer func() {
		if r := recover(); r != nil {
			verdict, msg = "panic", panicString(r)
		}
	}()
	ids := sortedIDs(t)
	if len(ids) == 0 {
		return "error", "no matrices"
	}
	deepest := ids[len(ids)-1]
	if _, _, _, err := pointindex.DeviationStats(t, deepest); err != nil {
		return "error", err.Error()
	}
	if err := pointindex.IsQuadTree(t); err != nil {
		return "error", err.Error()
	}
	return "ok", ""
}

func cloneTMS(t tms20.TileMatrixSet) tms20.TileMatrixSet {
	c := t
	c.TileMatrices = make(map[tms20.TMID]tms20.TileMatrix, len(t.TileMatrices))
	for id, tm := range t.TileMatrices {
		po := *tm.PointOfOrigin
		tm.PointOfOrigin = &po
		c.TileMatrices[id] = tm
	}
	return c
}

// pixelErrPPB: for every tile matrix the relative difference (in 1e-9) between the pixel size texel uses
// (deepest resolution of an index built for that matrix) and cellSize(z)/16 from the document
func pixelErrPPB(t tms20.TileMatrixSet) []int {
	out := []int{}
	for _, id := range sortedIDs(t) {
		func() {
			defer func() {
				if recover() != nil {
					out = append(out, 999999999)
				}
			}()
			ix, err := pointindex.FromTileMatrixSet(t, id)
			if err != nil {
				out = append(out, 999999998)
				return
			}
			_, _, _, res := ix.VerifGeometry()
			used := float64(res) / 1e10
			want := t.TileMatrices[id].CellSize / 16
			out = append(out, int(math.Round((used-want)/want*1e9)))
		}()
	}
	return out
}

func tmsQuadTrace(args []string) int {
	fs := flag.NewFlagSet("tms-quad-trace", flag.ExitOnError)
	outp := fs.String("out", "-", "")
	deep := fs.Bool("deep", false, "thorough tier: more factors and offsets per level")
	fs.Parse(args)
	out := newJSONL(*outp)
	defer out.close()
	emit := func(name, pert string, t tms20.TileMatrixSet) string {
		v, msg := validateLikeMain(t)
		rec := map[string]any{"name": name, "pert": pert, "mats": projectTMS(t), "verdict": v, "msg": msg, "binary": "n/a", "pixel_err_ppb": []int{}}
		if v == "ok" {
			rec["pixel_err_ppb"] = pixelErrPPB(t)
		}
		out.put(rec)
		return v
	}
	for _, name := range builtinSets {
		t, err := tms20.LoadEmbeddedTileMatrixSet(name)
		if err != nil {
			fatal("load %s: %v", name, err)
		}
		v := emit(name, "", t)
		if v != "ok" {
			continue
		}
		ids := sortedIDs(t)
		for _, id := range ids {
			fields := []string{"mw", "mh", "size", "size+1", "tw", "th", "tile", "origin", "origin-y", "corner", "cell", "cell-down", "idgap", "vmw", "drop"}
			if *deep {
				fields = append(fields, "cell*1.02", "cell*0.98", "cell*1.25", "cell*2", "cell*0.5", "origin-x-small", "origin-y-small", "origin-both",
					"mw-1", "mh+1", "tw+1", "th+1", "size/2")
			}
			for _, f := range fields {
				c := cloneTMS(t)
				tm := c.TileMatrices[id]
				switch f {
				case "mw":
					tm.MatrixWidth++
				case "mh":
					tm.MatrixHeight *= 2
				case "size": // stays square, no longer double the previous / half the next
					tm.MatrixWidth *= 2
					tm.MatrixHeight *= 2
				case "size+1":
					tm.MatrixWidth++
					tm.MatrixHeight++
				case "tile": // stays square, differs from the neighbours
					tm.TileWidth *= 2
					tm.TileHeight *= 2
				case "tw":
					tm.TileWidth *= 2
				case "th":
					tm.TileHeight *= 2
				case "origin":
					tm.PointOfOrigin[0] += 1
				case "origin-y":
					tm.PointOfOrigin[1] -= 0.5
				case "corner":
					if tm.CornerOfOrigin == tms20.BottomLeft {
						tm.CornerOfOrigin = tms20.TopLeft
					} else {
						tm.CornerOfOrigin = tms20.BottomLeft
					}
				case "cell":
					tm.CellSize *= 1.05
				case "cell-down":
					tm.CellSize *= 0.9
				case "cell*1.02":
					tm.CellSize *= 1.02
				case "cell*0.98":
					tm.CellSize *= 0.98
				case "cell*1.25":
					tm.CellSize *= 1.25
				case "cell*2":
					tm.CellSize *= 2
				case "cell*0.5":
					tm.CellSize *= 0.5
				case "origin-x-small":
					tm.PointOfOrigin[0] += 0.001
				case "origin-y-small":
					tm.PointOfOrigin[1] += 0.001
				case "origin-both":
					tm.PointOfOrigin[0] -= 3
					tm.PointOfOrigin[1] -= 3
				case "mw-1":
					if tm.MatrixWidth > 1 {
						tm.MatrixWidth--
					} else {
						tm.MatrixWidth += 2
					}
				case "mh+1":
					tm.MatrixHeight++
				case "tw+1":
					tm.TileWidth++
				case "th+1":
					tm.TileHeight++
				case "size/2":
					if tm.MatrixWidth > 1 {
						tm.MatrixWidth /= 2
						tm.MatrixHeight /= 2
					} else {
						tm.MatrixWidth, tm.MatrixHeight = 3, 3
					}
				case "vmw":
					tm.VariableMatrixWidths = []tms20.VariableMatrixWidth{{Coalesce: 2, MinTileRow: 0, MaxTileRow: 0}}
				}
				switch f {
				case "idgap": // renumber this and all deeper matrices one up
					c2 := cloneTMS(t)
					for _, j := range ids {
						if j >= id {
							m := t.TileMatrices[j]
							po := *m.PointOfOrigin
							m.PointOfOrigin = &po
							m.ID = strconv.Itoa(j + 1)
							delete(c2.TileMatrices, j)
							defer func(j int, m tms20.TileMatrix) {}(j, m)
							c2.TileMatrices[j+1] = m
						}
					}
					// entries moved up may have overwritten entries not yet moved: rebuild cleanly
					c2 = cloneTMS(t)
					nm := map[tms20.TMID]tms20.TileMatrix{}
					for _, j := range ids {
						m := c2.TileMatrices[j]
						if j >= id {
							m.ID = strconv.Itoa(j + 1)
							nm[j+1] = m
						} else {
							nm[j] = m
						}
					}
					c2.TileMatrices = nm
					c = c2
				case "drop":
					delete(c.TileMatrices, id)
				default:
					c.TileMatrices[id] = tm
				}
				emit(name, f+"@"+strconv.Itoa(id), c)
			}
		}
	}
	return 0
}

// tmsAddrTrace: tile addressing records (C15) for every built-in set and matrix without variable widths
func tmsAddrTrace(args []string) int {
	fs := flag.NewFlagSet("tms-addr-trace", flag.ExitOnError)
	outp := fs.String("out", "-", "")
	seed := fs.Int64("seed", 1, "")
	samples := fs.Int("samples", 6, "interior tiles sampled per matrix in addition to corner and border tiles")
	fs.Parse(args)
	rng := rand.New(rand.NewSource(*seed))
	out := newJSONL(*outp)
	defer out.close()
	type setT struct {
		name string
		t    tms20.TileMatrixSet
	}
	var sets []setT
	for _, name := range builtinSets {
		t, err := tms20.LoadEmbeddedTileMatrixSet(name)
		if err != nil {
			fatal("load %s: %v", name, err)
		}
		sets = append(sets, setT{name, t})
	}
	// the repository's bottom-left / lat-lon test document and synthetic bottom-left grids
	if t, err := tms20.LoadJSONTileMatrixSet(repoFile("tms20/testdata/SomethingWithBottomLeftAndLatLonAndDoubleHeight.json")); err == nil {
		sets = append(sets, setT{"testdata/BottomLeftLatLon", t})
	}
	sets = append(sets, setT{"syn-bottomleft", newSynGrid(2, 6, -1024.5, 2048.25, "bottomLeft", 4).tms}, setT{"syn-topleft", newSynGrid(4, 8, 100, 100, "topLeft", 3).tms},
		setT{"syn-swapped-bottomleft", newSynGridAxes(1, 4, 1000, 2000.5, "bottomLeft", 3, true).tms},
		setT{"syn-swapped-topleft", newSynGridAxes(2, 5, -300.25, 64, "topLeft", 3, true).tms},
		setT{"syn-declared-bbox", newSynGridFull(1, 4, 10, 266, "topLeft", 3, false, true).tms})
	for _, s := range sets {
		for _, id := range sortedIDs(s.t) {
			tm := s.t.TileMatrices[id]
			if len(tm.VariableMatrixWidths) != 0 {
				continue
			}
			w, h := int(tm.MatrixWidth), int(tm.MatrixHeight)
			// a tile's Z names a tile matrix by its id: the matrix the three functions use for Z = id must be the one the document calls id
			docID, derr := strconv.Atoi(tm.ID)
			if derr != nil {
				docID = -1
			}
			tiles := [][2]int{{0, 0}, {w - 1, 0}, {0, h - 1}, {w - 1, h - 1}, {w / 2, 0}, {0, h / 2}, {w - 1, h / 2}, {w / 2, h - 1}}
			for k := 0; k < *samples; k++ {
				tiles = append(tiles, [2]int{rng.Intn(w), rng.Intn(h)})
			}
			// the origin in x,y order from the document itself: pointOfOrigin is written in the axis order the document's own
			// orderedAxes announce (northing / latitude first = swapped); NOT taken from tms20.ToXYPoint, which is under test
			originXY := [2]float64{(*tm.PointOfOrigin)[0], (*tm.PointOfOrigin)[1]}
			swapped := false
			if g, gerr := loadDocGeom(s.name); gerr == nil {
				swapped = g.LatLon
			} else if len(s.t.OrderedAxes) >= 1 {
				a := strings.ToLower(s.t.OrderedAxes[0])
				swapped = a == "y" || a == "n" || a == "lat" || strings.HasPrefix(a, "north")
			}
			if swapped {
				originXY[0], originXY[1] = originXY[1], originXY[0]
			}
			ts := float64(tm.TileWidth) * tm.CellSize
			tsy := float64(tm.TileHeight) * tm.CellSize
			corner := string(tm.CornerOfOrigin)
			if corner == "" {
				corner = "topLeft"
			}
			// bounding box facts
			bl, tr, berr := s.t.MatrixBoundingBox(id)
			c00, ok00 := s.t.ToNative(slippy.NewTile(uint(id), 0, 0))
			cwh, okwh := s.t.ToNative(slippy.NewTile(uint(id), uint(w), uint(h)))
			tol := func(a, b float64) bool { return math.Abs(a-b) <= 16*math.Abs(a)*2.3e-16+1e-8 } // 9-decimal rounding of values near 1e7 costs a few ulp
			bboxOK := berr == nil && ok00 && okwh
			if bboxOK {
				if corner == "bottomLeft" {
					// ToNative returns the top-left corner of a tile; tile (0,0) is the bottom row
					bboxOK = tol(bl[0], c00[0]) && tol(tr[0], cwh[0]) && tol(bl[1], c00[1]-tsy) && tol(tr[1], cwh[1]-tsy)
				} else {
					bboxOK = tol(bl[0], c00[0]) && tol(tr[1], c00[1]) && tol(tr[0], cwh[0]) && tol(bl[1], cwh[1])
				}
			}
			seen := map[[2]int]bool{}
			for _, tl := range tiles {
				if tl[0] < 0 || tl[1] < 0 || seen[tl] {
					continue
				}
				seen[tl] = true
				topLeft, ok := s.t.ToNative(slippy.NewTile(uint(id), uint(tl[0]), uint(tl[1])))
				// the corner must be where the document says: origin + x * tile size, in x,y order
				wantX := originXY[0] + float64(tl[0])*ts
				var wantY float64
				if corner == "bottomLeft" {
					wantY = originXY[1] + float64(tl[1]+1)*tsy
				} else {
					wantY = originXY[1] - float64(tl[1])*tsy
				}
				cornerOK := ok && tol(topLeft[0], wantX) && tol(topLeft[1], wantY)
				for _, fr := range [][2]int{{1, 1}, {2, 2}, {3, 1}, {1, 3}, {3, 3}} {
					px := topLeft[0] + float64(fr[0])/4*ts
					py := topLeft[1] - float64(fr[1])/4*tsy
					got, found := s.t.FromNative(uint(id), geom.Point{px, py})
					from := []int{}
					if found && got != nil {
						from = []int{int(got.X), int(got.Y)}
					}
					out.put(map[string]any{"set": s.name, "z": id, "corner": corner, "w": w, "h": h, "tile": tl, "frac": fr, "from": from,
						"corner_ok": cornerOK, "bbox_ok": bboxOK, "kind": "inside", "docid": docID})
				}
			}
			// points outside the matrix extent map to no tile
			if berr == nil {
				for _, o := range [][2]float64{{bl[0] - ts/4, (bl[1] + tr[1]) / 2}, {tr[0] + ts/4, (bl[1] + tr[1]) / 2}, {(bl[0] + tr[0]) / 2, bl[1] - tsy/4}, {(bl[0] + tr[0]) / 2, tr[1] + tsy/4},
					{bl[0] - ts*3, bl[1] - tsy*3}, {tr[0] + ts*3, tr[1] + tsy*3}} {
					got, found := s.t.FromNative(uint(id), geom.Point{o[0], o[1]})
					from := []int{}
					if found && got != nil {
						from = []int{int(got.X), int(got.Y)}
					}
					out.put(map[string]any{"set": s.name, "z": id, "corner": corner, "w": w, "h": h, "tile": []int{-1, -1}, "frac": []int{0, 0}, "from": from,
						"corner_ok": true, "bbox_ok": bboxOK, "kind": "outside", "docid": docID})
				}
			}
		}
	}
	return 0
}
