package main

import (
	"database/sql"
	"flag"
	"fmt"
	"math"
	"math/rand"
	"os"
	"path/filepath"
	"reflect"
	"sort"
	"strings"

	"github.com/go-spatial/geom"
	gsgpkg "github.com/go-spatial/geom/encoding/gpkg"
	_ "github.com/mattn/go-sqlite3"
	"github.com/pdok/texel/processing"
	tgpkg "github.com/pdok/texel/processing/gpkg"
	"github.com/pdok/texel/tms20"
)

func init() {
	register("gpkg-case", gpkgCase)
	register("gpkg-make", gpkgMake)
	register("gpkg-dump", gpkgDump)
}

// ---------- building a source GeoPackage ----------
type srcRow struct {
	fid   int64
	name  interface{} // string or nil
	val   interface{} // float64 or nil
	num   interface{} // int64 or nil
	g     geom.Geometry
	empty bool
	bbox  [4]int
}

type srcTable struct {
	name    string
	gcol    string
	gtype   gsgpkg.GeometryType
	gcolPos int // position of the geometry column among the non-pk columns (0..3)
	extra   int // number of attribute columns besides fid (1..3): name [, val [, n]]
	srs     int32
	rows    []srcRow
	// gpkg_contents.srs_id is optional in a GeoPackage and need not repeat gpkg_geometry_columns.srs_id: NULL for some tables
	contentsSrsNull bool
}

var attrNames = []string{"name", "val", "n", "name2", "val2", "n2"}
var attrDDL = []string{"name TEXT", "val REAL", "n INTEGER", "name2 TEXT", "val2 REAL", "n2 INTEGER"}

func (t *srcTable) attrCols() []string {
	return attrNames[:t.extra]
}

func (t *srcTable) columnsDDL() []string {
	cols := []string{}
	attrs := attrDDL[:t.extra]
	for i := 0; i <= len(attrs); i++ {
		if i == t.gcolPos || (i == len(attrs) && t.gcolPos > len(attrs)) {
			cols = append(cols, t.gcol+" BLOB")
		}
		if i < len(attrs) {
			cols = append(cols, attrs[i])
		}
	}
	has := false
	for _, c := range cols {
		if strings.HasPrefix(c, t.gcol+" ") {
			has = true
		}
	}
	if !has {
		cols = append(cols, t.gcol+" BLOB")
	}
	return cols
}

func rd28992() gsgpkg.SpatialReferenceSystem {
	return gsgpkg.SpatialReferenceSystem{Name: "Amersfoort / RD New", ID: 28992, Organization: "EPSG", OrganizationCoordsysID: 28992,
		Definition: `PROJCS["Amersfoort / RD New"]`, Description: "verif"}
}

func makeSource(path string, tables []*srcTable) {
	os.Remove(path)
	h, err := gsgpkg.Open(path)
	if err != nil {
		fatal("open source: %v", err)
	}
	defer h.Close()
	if err := h.UpdateSRS(rd28992()); err != nil {
		fatal("srs: %v", err)
	}
	// a spatial reference system whose srs_id is not the organisation's code (as written by some producers: 100001 for EPSG:28992)
	custom := rd28992()
	custom.ID, custom.Name = 100001, "Amersfoort / RD New (custom id)"
	if err := h.UpdateSRS(custom); err != nil {
		fatal("srs: %v", err)
	}
	// (... and whose optional description is NULL, as the GeoPackage standard allows)
	if _, err := h.Exec(`UPDATE gpkg_spatial_ref_sys SET description = NULL WHERE srs_id = 100001`); err != nil {
		fatal("srs: %v", err)
	}
	for _, t := range tables {
		ddl := fmt.Sprintf(`CREATE TABLE "%s" (fid INTEGER NOT NULL PRIMARY KEY, %s);`, t.name, strings.Join(t.columnsDDL(), ", "))
		if _, err := h.Exec(ddl); err != nil {
			fatal("create %s: %v", ddl, err)
		}
		if err := h.AddGeometryTable(gsgpkg.TableDescription{Name: t.name, ShortName: t.name, Description: t.name, GeometryField: t.gcol,
			GeometryType: t.gtype, SRS: t.srs, Z: gsgpkg.Prohibited, M: gsgpkg.Prohibited}); err != nil {
			fatal("add geometry table: %v", err)
		}
		if t.contentsSrsNull {
			if _, err := h.Exec(`UPDATE gpkg_contents SET srs_id = NULL WHERE table_name = ?`, t.name); err != nil {
				fatal("contents srs: %v", err)
			}
		}
		cols := append([]string{"fid"}, t.attrCols()...)
		cols = append(cols, t.gcol)
		q := fmt.Sprintf(`INSERT INTO "%s"(%s) VALUES(%s)`, t.name, strings.Join(cols, ","), strings.TrimRight(strings.Repeat("?,", len(cols)), ","))
		for _, r := range t.rows {
			sb, err := gsgpkg.NewBinary(t.srs, r.g)
			if err != nil {
				fatal("binary: %v", err)
			}
			vals := []interface{}{r.fid}
			vals = append(vals, []interface{}{r.name, r.val, r.num, r.name, r.val, r.num}[:t.extra]...)
			vals = append(vals, sb)
			if _, err := h.Exec(q, vals...); err != nil {
				fatal("insert: %v", err)
			}
		}
	}
}

func randGeom(rng *rand.Rand, gtype gsgpkg.GeometryType, i int) (geom.Geometry, bool, [4]int) {
	x, y := 10+rng.Intn(90), 10+rng.Intn(90)
	w, h := 1+rng.Intn(9), 1+rng.Intn(9)
	bb := [4]int{x, y, x + w, y + h}
	fx, fy, fw, fh := float64(x), float64(y), float64(w), float64(h)
	empty := rng.Intn(6) == 0
	switch gtype {
	case gsgpkg.Point:
		if empty {
			return geom.Point{math.NaN(), math.NaN()}, true, [4]int{}
		}
		return geom.Point{fx, fy}, false, [4]int{x, y, x, y}
	case gsgpkg.Linestring:
		if empty {
			return geom.LineString{}, true, [4]int{}
		}
		return geom.LineString{{fx, fy}, {fx + fw, fy + fh}}, false, bb
	case gsgpkg.GeometryCollection:
		if empty {
			return geom.Collection{}, true, [4]int{}
		}
		return geom.Collection{geom.Point{fx, fy}, geom.LineString{{fx, fy}, {fx + fw, fy + fh}}}, false, bb
	case gsgpkg.MultiPoint:
		if empty {
			return geom.MultiPoint{}, true, [4]int{}
		}
		return geom.MultiPoint{{fx, fy}, {fx + fw, fy + fh}}, false, bb
	case gsgpkg.MultiLinestring:
		if empty {
			return geom.MultiLineString{}, true, [4]int{}
		}
		return geom.MultiLineString{{{fx, fy}, {fx + fw, fy}}, {{fx, fy + fh}, {fx + fw, fy + fh}}}, false, bb
	case gsgpkg.MultiPolygon:
		if empty {
			return geom.MultiPolygon{}, true, [4]int{}
		}
		return geom.MultiPolygon{{{{fx, fy}, {fx + fw, fy}, {fx + fw, fy + fh}, {fx, fy + fh}}}}, false, bb
	default: // polygon
		if empty {
			return geom.Polygon{}, true, [4]int{}
		}
		return geom.Polygon{{{fx, fy}, {fx + fw, fy}, {fx + fw, fy + fh}, {fx, fy + fh}}}, false, bb
	}
}

func randTable(rng *rand.Rand, name string, count int, gtype gsgpkg.GeometryType) *srcTable {
	t := &srcTable{name: name, gcol: []string{"geom", "geometry", "shape"}[rng.Intn(3)], gtype: gtype, extra: 1 + rng.Intn(3), srs: []int32{28992, 4326, 100001}[rng.Intn(3)]}
	t.gcolPos = rng.Intn(t.extra + 1)
	t.contentsSrsNull = rng.Intn(4) == 0
	fid := int64(rng.Intn(5))
	for i := 0; i < count; i++ {
		fid += 1 + int64(rng.Intn(3))
		r := srcRow{fid: fid}
		if rng.Intn(5) > 0 {
			r.name = fmt.Sprintf("n%d-%d", i, rng.Intn(100))
		}
		if rng.Intn(5) > 0 {
			r.val = float64(rng.Intn(1000)) / 8
		}
		if rng.Intn(5) > 0 {
			r.num = int64(rng.Intn(1000) - 500)
		}
		r.g, r.empty, r.bbox = randGeom(rng, gtype, i)
		t.rows = append(t.rows, r)
	}
	return t
}

// ---------- reading a GeoPackage back with plain SQLite ----------
type tableDump struct {
	Name     string          `json:"name"`
	Columns  []string        `json:"columns"` // "name TYPE notnull pk" in table order
	Rows     [][]interface{} `json:"-"`
	Geoms    []geom.Geometry `json:"-"`
	Fids     []int64         `json:"fids"`
	Rtree    []int64         `json:"rtree"`
	Extent   []float64       `json:"extent"` // nil if NULL
	GeomCol  string          `json:"geomcol"`
	GeomType string          `json:"geomtype"`
	SrsID    int             `json:"srs"`
	SrsOrg   string          `json:"srs_org"`
	Contents bool            `json:"contents"`
}

func openPlain(path string) *sql.DB {
	db, err := sql.Open("sqlite3", "file:"+path+"?mode=ro")
	if err != nil {
		fatal("open plain: %v", err)
	}
	return db
}

func dumpGpkg(path string) map[string]*tableDump {
	out, err := dumpGpkgE(path)
	if err != nil {
		fatal("%v", err)
	}
	return out
}

// dumpGpkgE: as dumpGpkg, but a file that cannot be read (e.g. left behind with a hot journal by an aborted run) is an error value
func dumpGpkgE(path string) (res map[string]*tableDump, err error) {
	defer func() {
		if r := recover(); r != nil {
			res, err = nil, fmt.Errorf("reading %s: %v", path, r)
		}
	}()
	db := openPlain(path)
	defer db.Close()
	out := map[string]*tableDump{}
	rows, err := db.Query(`SELECT table_name, column_name, geometry_type_name, srs_id FROM gpkg_geometry_columns ORDER BY rowid`)
	if err != nil {
		return nil, fmt.Errorf("geometry columns of %s: %v", path, err)
	}
	var order []string
	for rows.Next() {
		td := &tableDump{}
		if err := rows.Scan(&td.Name, &td.GeomCol, &td.GeomType, &td.SrsID); err != nil {
			panic(err)
		}
		out[td.Name] = td
		order = append(order, td.Name)
	}
	rows.Close()
	for _, name := range order {
		td := out[name]
		var orgID int
		var srsName, srsDef string
		_ = db.QueryRow(`SELECT organization, organization_coordsys_id, srs_name, definition FROM gpkg_spatial_ref_sys WHERE srs_id = ?`, td.SrsID).Scan(&td.SrsOrg, &orgID, &srsName, &srsDef)
		td.SrsOrg = fmt.Sprintf("%s:%d:%s:%s", td.SrsOrg, orgID, srsName, srsDef)
		var minx, miny, maxx, maxy *float64
		var dt string
		err := db.QueryRow(`SELECT data_type, min_x, min_y, max_x, max_y FROM gpkg_contents WHERE table_name = ?`, name).Scan(&dt, &minx, &miny, &maxx, &maxy)
		td.Contents = err == nil && dt == "features"
		if minx != nil && miny != nil && maxx != nil && maxy != nil {
			td.Extent = []float64{*minx, *miny, *maxx, *maxy}
		}
		ci, err := db.Query(fmt.Sprintf(`PRAGMA table_info('%s')`, name))
		if err != nil {
			panic(err)
		}
		var colNames []string
		for ci.Next() {
			var cid, notnull, pk int
			var cname, ctype string
			var dflt interface{}
			ci.Scan(&cid, &cname, &ctype, &notnull, &dflt, &pk)
			td.Columns = append(td.Columns, fmt.Sprintf("%s %s %d %d", cname, ctype, notnull, pk))
			colNames = append(colNames, cname)
		}
		ci.Close()
		attrs := []string{}
		for _, c := range colNames {
			if c != td.GeomCol {
				attrs = append(attrs, c)
			}
		}
		q := fmt.Sprintf(`SELECT %s, %s FROM "%s" ORDER BY rowid`, strings.Join(attrs, ","), td.GeomCol, name)
		rs, err := db.Query(q)
		if err != nil {
			panic(err)
		}
		for rs.Next() {
			vals := make([]interface{}, len(attrs)+1)
			ptrs := make([]interface{}, len(vals))
			for i := range vals {
				ptrs[i] = &vals[i]
			}
			if err := rs.Scan(ptrs...); err != nil {
				panic(err)
			}
			for i, v := range vals {
				if b, ok := v.([]byte); ok && i < len(attrs) {
					vals[i] = string(b)
				}
			}
			var g geom.Geometry
			if blob, ok := vals[len(attrs)].([]byte); ok {
				sb, err := gsgpkg.DecodeGeometry(blob)
				if err == nil && sb != nil {
					g = sb.Geometry
				}
			}
			td.Rows = append(td.Rows, vals[:len(attrs)])
			td.Geoms = append(td.Geoms, g)
			if f, ok := vals[0].(int64); ok {
				td.Fids = append(td.Fids, f)
			}
		}
		rs.Close()
		rt, err := db.Query(fmt.Sprintf(`SELECT id FROM "rtree_%s_%s" ORDER BY id`, name, td.GeomCol))
		if err == nil {
			for rt.Next() {
				var id int64
				rt.Scan(&id)
				td.Rtree = append(td.Rtree, id)
			}
			rt.Close()
		}
		if td.Rtree == nil {
			td.Rtree = []int64{}
		}
	}
	return out, nil
}

func countRows(path, table string) int {
	db := openPlain(path)
	defer db.Close()
	var n int
	if err := db.QueryRow(fmt.Sprintf(`SELECT count(*) FROM "%s"`, table)).Scan(&n); err != nil {
		return -1
	}
	return n
}

func geomEqual(a, b geom.Geometry) bool {
	return reflect.DeepEqual(normGeom(a), normGeom(b))
}

func normGeom(g geom.Geometry) interface{} {
	switch t := g.(type) {
	case geom.Point:
		if math.IsNaN(t[0]) {
			return "EMPTY"
		}
		return [2]float64(t)
	case geom.LineString:
		if len(t) == 0 {
			return "EMPTY"
		}
		return [][2]float64(t)
	case geom.Polygon:
		if len(t) == 0 {
			return "EMPTY"
		}
		return [][][2]float64(t)
	case geom.MultiPolygon:
		if len(t) == 0 {
			return "EMPTY"
		}
		return [][][][2]float64(t)
	case geom.MultiPoint:
		if len(t) == 0 {
			return "EMPTY"
		}
		return [][2]float64(t)
	case geom.Collection:
		if len(t) == 0 {
			return "EMPTY"
		}
		parts := []interface{}{}
		for _, x := range t {
			parts = append(parts, normGeom(x))
		}
		return fmt.Sprintf("COLLECTION%v", parts)
	case geom.MultiLineString:
		if len(t) == 0 {
			return "EMPTY"
		}
		return [][][2]float64(t)
	case nil:
		return "NIL"
	}
	return fmt.Sprintf("%T%v", g, g)
}

// gpkgCase: one real TargetGeopackage fed feature by feature over a channel; rows observed through a second
// (plain SQLite, read-only) connection after every send; final state projected for PagingTrace.tla.
func gpkgCase(args []string) int {
	fs := flag.NewFlagSet("gpkg-case", flag.ExitOnError)
	p := fs.Int("p", 3, "page size")
	count := fs.Int("count", 7, "features")
	seed := fs.Int64("seed", 1, "")
	dir := fs.String("dir", "", "scratch directory (files are created and removed here)")
	gt := fs.String("gtype", "polygon", "polygon|multipolygon|point|linestring")
	fs.Parse(args)
	rng := rand.New(rand.NewSource(*seed))
	gtype := map[string]gsgpkg.GeometryType{"polygon": gsgpkg.Polygon, "multipolygon": gsgpkg.MultiPolygon, "point": gsgpkg.Point, "linestring": gsgpkg.Linestring,
		"multipoint": gsgpkg.MultiPoint, "multilinestring": gsgpkg.MultiLinestring, "geometrycollection": gsgpkg.GeometryCollection}[*gt]
	st := randTable(rng, "t"+itoa(rng.Intn(1000)), *count, gtype)
	srcPath := filepath.Join(*dir, "src.gpkg")
	tgtPath := filepath.Join(*dir, "tgt.gpkg")
	makeSource(srcPath, []*srcTable{st})
	os.Remove(tgtPath)
	out := newJSONL("-")
	defer out.close()

	source := tgpkg.SourceGeopackage{}
	source.Init(srcPath)
	tables := source.GetTableInfo()
	if len(tables) != 1 {
		fatal("expected 1 table, got %d", len(tables))
	}
	source.Table = tables[0]
	// read the features through the real reader
	fch := make(chan processing.Feature)
	go source.ReadFeatures(fch)
	var feats []processing.Feature
	for f := range fch {
		feats = append(feats, f)
	}
	target := tgpkg.TargetGeopackage{}
	target.Init(tgtPath, *p)
	if err := target.CreateTables(tables); err != nil {
		fatal("CreateTables: %v", err)
	}
	target.Table = tables[0]
	featDesc := []map[string]any{}
	for _, r := range st.rows {
		featDesc = append(featDesc, map[string]any{"empty": r.empty, "bbox": r.bbox})
	}
	out.put(map[string]any{"e": "Reset", "P": *p, "count": *count, "read": len(feats), "feat": featDesc, "gtype": *gt, "extra": st.extra, "gcolpos": st.gcolPos, "srs": st.srs})
	ch := make(chan processing.Feature)
	done := make(chan struct{})
	go func() {
		target.WriteFeatures(ch)
		close(done)
	}()
	for j, f := range feats {
		ch <- f
		out.put(map[string]any{"e": "Sent", "j": j + 1, "rows": countRows(tgtPath, st.name)})
	}
	close(ch)
	<-done
	target.Close()
	source.Close()
	emitFinal(out, srcPath, tgtPath, st.name, nil)
	os.Remove(srcPath)
	os.Remove(tgtPath)
	return 0
}

// emitFinal projects the written table: for every target row the index (1-based) of the source row it equals
// (attributes incl. NULLs and geometry), rtree ids as row positions, extent as integers, schema comparisons.
func emitFinal(out *jsonl, srcPath, tgtPath, table string, wantGeom func(i int, g geom.Geometry) geom.Geometry) {
	src := dumpGpkg(srcPath)[table]
	tgt := dumpGpkg(tgtPath)[table]
	if tgt == nil {
		out.put(map[string]any{"e": "Done", "table": table, "missing": true})
		return
	}
	rowsrc := []int{}
	pos := map[int64]int{}
	for k, vals := range tgt.Rows {
		m := 0
		for i, sv := range src.Rows {
			wg := src.Geoms[i]
			if wantGeom != nil {
				wg = wantGeom(i, wg)
			}
			if reflect.DeepEqual(vals, sv) && geomEqual(tgt.Geoms[k], wg) {
				m = i + 1
				break
			}
		}
		rowsrc = append(rowsrc, m)
		if k < len(tgt.Fids) {
			pos[tgt.Fids[k]] = k + 1
		}
	}
	rt := []int{}
	for _, id := range tgt.Rtree {
		rt = append(rt, pos[id])
	}
	sort.Ints(rt)
	var ext []int
	extExact := true
	for _, v := range tgt.Extent {
		ext = append(ext, int(v))
		if float64(int(v)) != v {
			extExact = false
		}
	}
	out.put(map[string]any{"e": "Done", "table": table, "missing": false, "rowsrc": rowsrc, "rtree": rt, "extent": nilIfEmpty(ext), "extent_exact": extExact,
		"columns_ok": reflect.DeepEqual(src.Columns, tgt.Columns), "geomcol_ok": src.GeomCol == tgt.GeomCol, "geomtype_ok": src.GeomType == tgt.GeomType,
		"srs_ok": src.SrsID == tgt.SrsID && src.SrsOrg == tgt.SrsOrg, "contents_ok": tgt.Contents})
}

func nilIfEmpty(v []int) any {
	if len(v) == 0 {
		return []int{}
	}
	return v
}

// gpkgMake / gpkgDump are used by the CLI check (C13): build a random multi-table source, dump a file as JSON.
func gpkgMake(args []string) int {
	fatal("gpkg-make: see clidrv.go")
	return 2
}

func gpkgDump(args []string) int {
	fatal("gpkg-dump: see clidrv.go")
	return 2
}

var _ = tms20.TMID(0)
