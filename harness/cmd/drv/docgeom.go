package main

import (
	"bytes"
	"encoding/json"
	"fmt"
	"math"
	"math/big"
	"os"
	"path/filepath"
	"strconv"
	"strings"
)

// docGeom is the exact (rational) geometry of a tile-matrix-set *document*, computed by the harness
// independently of texel: the corner of the extent, and per tile matrix the cell size, all as decimal
// fractions exactly as written in the JSON. It is the abstraction function for real grids (DESIGN 5.2).
type docGeom struct {
	ID        string
	MinX      *big.Rat // lower-left corner of matrix 0 in x,y order
	MinY      *big.Rat
	Span0     *big.Rat // width of matrix 0 = cellSize(0) * tileWidth * matrixWidth
	TileWidth int
	Cell      map[int]*big.Rat // cell size per tile matrix id
	MaxID     int
	LatLon    bool
}

func repoFile(rel string) string {
	root := os.Getenv("VERIF_REPO")
	if root == "" {
		root = "/repo"
	}
	return filepath.Join(root, rel)
}

func ratOf(n json.Number) *big.Rat {
	r, ok := new(big.Rat).SetString(n.String())
	if !ok {
		fatal("not a decimal: %s", n)
	}
	return r
}

func loadDocGeom(id string) (*docGeom, error) {
	raw, err := os.ReadFile(repoFile("tms20/tilematrixsets/" + id + ".json"))
	if err != nil {
		return nil, err
	}
	dec := json.NewDecoder(bytes.NewReader(raw))
	dec.UseNumber()
	var doc struct {
		ID           string   `json:"id"`
		OrderedAxes  []string `json:"orderedAxes"`
		TileMatrices []struct {
			ID             string        `json:"id"`
			CellSize       json.Number   `json:"cellSize"`
			CornerOfOrigin string        `json:"cornerOfOrigin"`
			PointOfOrigin  []json.Number `json:"pointOfOrigin"`
			TileWidth      int           `json:"tileWidth"`
			TileHeight     int           `json:"tileHeight"`
			MatrixWidth    int           `json:"matrixWidth"`
			MatrixHeight   int           `json:"matrixHeight"`
		} `json:"tileMatrices"`
	}
	if err := dec.Decode(&doc); err != nil {
		return nil, err
	}
	g := &docGeom{ID: id, Cell: map[int]*big.Rat{}}
	if len(doc.OrderedAxes) >= 1 {
		a := strings.ToLower(doc.OrderedAxes[0])
		g.LatLon = a == "y" || a == "n" || a == "lat" || strings.HasPrefix(a, "north") || a == "n(y)"
	}
	for _, tm := range doc.TileMatrices {
		z, err := strconv.Atoi(tm.ID)
		if err != nil {
			return nil, fmt.Errorf("non-integer id %q", tm.ID)
		}
		g.Cell[z] = ratOf(tm.CellSize)
		if z > g.MaxID {
			g.MaxID = z
		}
		if z == 0 {
			ox, oy := ratOf(tm.PointOfOrigin[0]), ratOf(tm.PointOfOrigin[1])
			if g.LatLon {
				ox, oy = oy, ox
			}
			g.TileWidth = tm.TileWidth
			g.Span0 = new(big.Rat).Mul(g.Cell[0], big.NewRat(int64(tm.TileWidth*tm.MatrixWidth), 1))
			spanY := new(big.Rat).Mul(g.Cell[0], big.NewRat(int64(tm.TileHeight*tm.MatrixHeight), 1))
			g.MinX = ox
			if tm.CornerOfOrigin == "bottomLeft" {
				g.MinY = oy
			} else {
				g.MinY = new(big.Rat).Sub(oy, spanY)
			}
		}
	}
	if g.Span0 == nil {
		return nil, fmt.Errorf("no tile matrix 0 in %s", id)
	}
	return g, nil
}

func (g *docGeom) level(z int) int { return z + log2u(uint(g.TileWidth)) + 4 }

// pixel size of the internal vector-tile grid of matrix z according to the document: cellSize(z)/16
func (g *docGeom) pixel(z int) *big.Rat {
	return new(big.Rat).Quo(g.Cell[z], big.NewRat(16, 1))
}

// pixel size at quadtree level L derived from matrix 0: span0 / 2^L
func (g *docGeom) pixelAtLevel(l int) *big.Rat {
	return new(big.Rat).Quo(g.Span0, new(big.Rat).SetInt(new(big.Int).Lsh(big.NewInt(1), uint(l))))
}

var tenTo10 = big.NewRat(10000000000, 1)

// texelInt replicates the float -> int64 conversion texel applies to every ordinate: int64(o * 10^10).
func texelInt(o float64) int64 { return int64(o * math.Pow(10, 10)) }

// floatFor finds a float64 whose texel integer is exactly the given one (in 1e-10 units); ok=false if none nearby.
func floatFor(target int64) (float64, bool) {
	f := float64(target) / 1e10
	for i := 0; i < 8; i++ {
		got := texelInt(f)
		switch {
		case got == target:
			return f, true
		case got < target:
			f = math.Nextafter(f, math.Inf(1))
		default:
			f = math.Nextafter(f, math.Inf(-1))
		}
	}
	return f, false
}

// ratInt returns r*1e10 as an int64 if it is integral.
func ratInt(r *big.Rat) (int64, bool) {
	v := new(big.Rat).Mul(r, tenTo10)
	if !v.IsInt() || !v.Num().IsInt64() {
		return 0, false
	}
	return v.Num().Int64(), true
}

func ratFloat(r *big.Rat) float64 {
	f, _ := r.Float64()
	return f
}
