package main

import (
	"encoding/json"
	"flag"
	"time"

	"github.com/go-spatial/geom"
	"github.com/pdok/texel/processing"
	"github.com/pdok/texel/tms20"
)

func init() { register("pipe-sched", pipeSched) }

type schedStep struct {
	A   string  `json:"a"`
	X   int     `json:"x"`
	N   int     `json:"n"`
	Tg  []int   `json:"tg"`
	Out [][]int `json:"out"`
}

type gatedSource struct {
	r    *pipeRun
	gate chan struct{}
	ack  chan struct{}
}

func (s *gatedSource) ReadFeatures(ch chan<- processing.Feature) {
	for i, f := range s.r.src {
		<-s.gate
		s.r.log.add(map[string]any{"e": "SrcSend", "i": i + 1})
		s.ack <- struct{}{}
		ch <- f
	}
	<-s.gate
	s.r.log.add(map[string]any{"e": "SrcClose"})
	s.ack <- struct{}{}
	close(ch)
}

type gatedTarget struct {
	ft   *fakeTarget
	gate chan string
	ack  chan struct{}
}

func (g *gatedTarget) WriteFeatures(ch <-chan processing.Feature) {
	for {
		tok := <-g.gate
		f, ok := <-ch
		if tok == "D" {
			if ok {
				g.ft.r.log.add(map[string]any{"e": "Mismatch", "what": "target expected its channel to be closed but received a feature", "t": g.ft.t})
			}
			g.ft.r.log.add(map[string]any{"e": "TgtDone", "t": g.ft.t})
			g.ack <- struct{}{}
			return
		}
		if !ok {
			g.ft.r.log.add(map[string]any{"e": "Mismatch", "what": "target expected a feature but its channel was closed", "t": g.ft.t})
			g.ack <- struct{}{}
			return
		}
		// reuse the decoding of the free-running fake target
		one := make(chan processing.Feature, 1)
		one <- f
		close(one)
		saved := g.ft.release
		g.ft.release = nil
		n0 := len(g.ft.r.log.evs)
		g.ft.WriteFeatures(one) // logs TgtRecv and a TgtDone for the one-element stream: drop that TgtDone
		g.ft.release = saved
		g.ft.r.log.mu.Lock()
		kept := g.ft.r.log.evs[:n0]
		for _, e := range g.ft.r.log.evs[n0:] {
			if e["e"] == "TgtDone" && e["t"] == g.ft.t {
				continue
			}
			kept = append(kept, e)
		}
		g.ft.r.log.evs = kept
		g.ft.r.log.mu.Unlock()
		g.ack <- struct{}{}
	}
}

// pipeSched: TLC schedules (PipelineSched.tla) enforced on the real ProcessFeatures through gates in the fake source,
// the polygon function and the fake targets; the resulting event logs are validated by PipelineTrace.tla like any other.
func pipeSched(args []string) int {
	fs := flag.NewFlagSet("pipe-sched", flag.ExitOnError)
	in := fs.String("in", "-", "")
	outp := fs.String("out", "-", "")
	fs.Parse(args)
	out := newJSONL(*outp)
	defer out.close()
	run := 0
	stop := false
	readJSONLines(*in, func(line []byte) {
		if stop {
			return
		}
		var v struct {
			Hist []schedStep `json:"hist"`
		}
		if err := json.Unmarshal(line, &v); err != nil || len(v.Hist) == 0 || v.Hist[0].A != "Start" {
			fatal("bad schedule: %s", line)
		}
		st := v.Hist[0]
		r := &pipeRun{log: &evLog{}, n: st.N, targets: st.Tg, tmid: map[int]int{}, abs: map[int]int{}, delay: "sched"}
		for _, t := range st.Tg {
			r.tmid[t] = 10 + t
			r.abs[10+t] = t
		}
		for i := 1; i <= st.N; i++ {
			cnt := make([]int, 5)
			for _, t := range st.Out[i-1] {
				cnt[t-1] = 1
			}
			r.feats = append(r.feats, featSpec{Kind: "poly", Cnt: [][]int{cnt}})
			r.src = append(r.src, &pFeature{cols: []interface{}{int64(i), "name-" + itoa(i), float64(i) / 4}, g: srcPolygon(i, 1)})
		}
		feats := r.feats
		if feats == nil {
			feats = []featSpec{}
		}
		out.put(map[string]any{"e": "Reset", "n": r.n, "targets": r.targets, "feat": feats, "delay": "sched", "procs": 0, "run": run})
		out.flush()
		run++
		ack := make(chan struct{}, 64)
		src := &gatedSource{r: r, gate: make(chan struct{}), ack: ack}
		polyGate := make(chan struct{})
		targets := map[tms20.TMID]processing.Target{}
		tg := map[int]*gatedTarget{}
		for _, t := range st.Tg {
			g := &gatedTarget{ft: &fakeTarget{r: r, t: t}, gate: make(chan string), ack: ack}
			tg[t] = g
			targets[r.tmid[t]] = g
		}
		f := func(p geom.Polygon, tmIDs []tms20.TMID) map[tms20.TMID][]geom.Polygon {
			<-polyGate
			res := r.polyFunc(p, tmIDs) // logs Snap
			ack <- struct{}{}
			return res
		}
		done := make(chan string, 1)
		go func() {
			defer func() {
				if p := recover(); p != nil {
					done <- "panic: " + panicString(p)
				}
			}()
			processing.ProcessFeatures(src, targets, f)
			r.log.add(map[string]any{"e": "Return", "leaked": 0})
			done <- "ok"
		}()
		hang := ""
		wait := func(what string) bool {
			select {
			case <-ack:
				return true
			case <-time.After(5 * time.Second):
				hang = what
				return false
			}
		}
		send := func(what string, deliver func() bool) bool {
			okc := make(chan bool, 1)
			go func() { okc <- deliver() }()
			select {
			case <-okc:
				return wait(what)
			case <-time.After(5 * time.Second):
				hang = what + " (the goroutine never came to its gate)"
				return false
			}
		}
		for k, s := range v.Hist[1:] {
			what := s.A + " " + itoa(s.X) + " (step " + itoa(k+1) + ")"
			ok := true
			switch s.A {
			case "S", "SC":
				ok = send(what, func() bool { src.gate <- struct{}{}; return true })
			case "P":
				ok = send(what, func() bool { polyGate <- struct{}{}; return true })
			case "R", "D":
				g := tg[s.X]
				tok := s.A
				ok = send(what, func() bool { g.gate <- tok; return true })
			case "Ret":
				select {
				case st := <-done:
					if st != "ok" {
						r.log.add(map[string]any{"e": "Panic", "msg": st})
					}
				case <-time.After(5 * time.Second):
					hang = what
					ok = false
				}
			}
			if !ok {
				break
			}
		}
		r.log.mu.Lock()
		for _, e := range r.log.evs {
			out.put(e)
		}
		r.log.mu.Unlock()
		if hang != "" {
			out.put(map[string]any{"e": "Hang", "at": hang, "blocked_in_processing": -1})
			stop = true // the blocked goroutines cannot be cleaned up: end this driver process here
		}
	})
	return 0
}
