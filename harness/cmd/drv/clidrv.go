package main

import (
	"encoding/json"
	"flag"
	"fmt"
	"math"
	"math/rand"
	"os"
	"path/filepath"
	"reflect"
	"slices"
	"sort"
	"strings"

	"github.com/go-spatial/geom"
	gsgpkg "github.com/go-spatial/geom/encoding/gpkg"
	"github.com/pdok/texel/pointindex"
	"github.com/pdok/texel/snap"
	"github.com/pdok/texel/tms20"
)

func init() {
	register("cli-make", cliMake)
	register("cli-observe", cliObserve)
}

type cliCase struct {
	Seed      int64    `json:"seed"`
	Tms       string   `json:"tms"`
	Ids       []int    `json:"ids"`
	PageSize  int      `json:"pagesize"`
	Overwrite bool     `json:"overwrite"`
	Keep      bool     `json:"keep"`
	Iog       bool     `json:"iog"`
	Rwo       bool     `json:"rwo"`
	Target    string   `json:"target"` // relative to the case directory
	Pre       []string `json:"pre"`    // pre-existing target files (relative), only with overwrite
	ValidTms  bool     `json:"valid_tms"`
	Outside   bool     `json:"any_outside"`
	Tables    []string `json:"tables"`
}

// RD polygon generator: star-shaped around (cx,cy) with radius r (metres)
func rdStar(rng *rand.Rand, cx, cy, r float64, n int) [][2]float64 {
	angles := make([]float64, n)
	for i := range angles {
		angles[i] = rng.Float64() * 2 * math.Pi
	}
	sort.Float64s(angles)
	ring := make([][2]float64, 0, n)
	for _, a := range angles {
		rr := r * (0.4 + 0.6*rng.Float64())
		// 3 decimals like real data
		x := math.Round((cx+rr*math.Cos(a))*1000) / 1000
		y := math.Round((cy+rr*math.Sin(a))*1000) / 1000
		ring = append(ring, [2]float64{x, y})
	}
	return ring
}

func rdPolygon(rng *rand.Rand, pix float64, outside bool) geom.Polygon {
	cx := 20000 + rng.Float64()*250000
	cy := 310000 + rng.Float64()*300000
	if outside {
		cx = 595401.92 + 10 + rng.Float64()*1000 // right of the RD extent
		if rng.Intn(2) == 0 {
			cx, cy = -285401.92-10-rng.Float64()*1000, 400000
		}
	}
	var r float64
	switch rng.Intn(4) {
	case 0:
		r = pix * (0.2 + rng.Float64()) // collapses at the coarse level
	case 1:
		r = pix * (1 + 3*rng.Float64())
	default:
		r = pix * (4 + 20*rng.Float64())
	}
	p := geom.Polygon{rdStar(rng, cx, cy, r, 3+rng.Intn(9))}
	if rng.Intn(4) == 0 && r > 6*pix {
		h := rdStar(rng, cx, cy, r*0.25, 3+rng.Intn(4))
		p = append(p, h)
	}
	if rng.Intn(5) == 0 { // dumbbell: two blobs joined by a thin neck -> splits at coarse levels
		w := pix * 0.3
		p = geom.Polygon{{{cx - 6*pix, cy - 2*pix}, {cx - 2*pix, cy - 2*pix}, {cx - 2*pix, cy - w}, {cx + 2*pix, cy - w}, {cx + 2*pix, cy - 2*pix},
			{cx + 6*pix, cy - 2*pix}, {cx + 6*pix, cy + 2*pix}, {cx + 2*pix, cy + 2*pix}, {cx + 2*pix, cy + w}, {cx - 2*pix, cy + w}, {cx - 2*pix, cy + 2*pix}, {cx - 6*pix, cy + 2*pix}}}
	}
	return p
}

func cliMake(args []string) int {
	fs := flag.NewFlagSet("cli-make", flag.ExitOnError)
	dir := fs.String("dir", "", "")
	seed := fs.Int64("seed", 1, "")
	target := fs.String("target", "", "relative target path (default: random)")
	mode := fs.String("mode", "normal", "normal | badtms | tiny")
	fs.Parse(args)
	rng := rand.New(rand.NewSource(*seed))
	c := cliCase{Seed: *seed, Tms: "NetherlandsRDNewQuad", ValidTms: true}
	nid := 1 + rng.Intn(3)
	perm := rng.Perm(15)
	for _, z := range perm[:nid] {
		c.Ids = append(c.Ids, z+1)
	}
	if rng.Intn(2) == 0 {
		sort.Ints(c.Ids)
	}
	if rng.Intn(8) == 0 {
		// a tile matrix requested twice: still exactly one target file per requested tile matrix
		c.Ids = append(c.Ids, c.Ids[rng.Intn(len(c.Ids))])
		if rng.Intn(2) == 0 {
			c.Ids[0], c.Ids[len(c.Ids)-1] = c.Ids[len(c.Ids)-1], c.Ids[0]
		}
	}
	c.PageSize = []int{1, 2, 3, 5, 7, 1000}[rng.Intn(6)]
	c.Keep, c.Iog, c.Rwo = rng.Intn(2) == 0, rng.Intn(2) == 0, rng.Intn(3) == 0
	c.Overwrite = rng.Intn(2) == 0
	c.Target = []string{"out.gpkg", "sub/out.gpkg", "a.b.gpkg", "noext", "sub/dir/x_1.gpkg", "t.out.sqlite"}[rng.Intn(6)]
	if *target != "" {
		c.Target = *target
	}
	if *mode == "badtms" {
		// every rejected set in turn (by seed), first with the root alone, then with other parts: a set that is no quadtree must be
		// rejected whatever part of it is requested
		k := int(*seed % 32)
		c.Tms = []string{"WorldCRS84Quad", "CDB1GlobalGrid", "GNOSISGlobalGrid", "NoSuchTileMatrixSet", "WGS1984Quad", "UTM31WGS84Quad",
			"CanadianNAD83_LCC", "LINZAntarticaMapTilegrid"}[k%8]
		c.ValidTms = false
		c.Ids = [][]int{{0}, {1, 2}, {0, 1}, {2}}[(k/8)%4]
	}
	minZ := c.Ids[0]
	for _, z := range c.Ids {
		if z < minZ {
			minZ = z
		}
	}
	pix := 3440.64 / math.Pow(2, float64(minZ)) / 16
	otherSet := false
	if *mode == "normal" && rng.Intn(3) == 0 {
		// one of the other tile matrix sets the tool accepts (the coordinates of the RD window lie well inside their extents)
		c.Tms = []string{"WebMercatorQuad", "UPSArcticWGS84Quad", "UPSAntarcticWGS84Quad", "WorldMercatorWGS84Quad"}[rng.Intn(4)]
		if t, err := tms20.LoadEmbeddedTileMatrixSet(c.Tms); err == nil {
			pix = t.TileMatrices[minZ].CellSize / 16
		}
		otherSet = true
		if rng.Intn(3) > 0 {
			// a deep tile matrix in the list, first as often as last: the deviation warning of validation must refer to it
			if len(c.Ids) == 1 && rng.Intn(2) == 0 {
				c.Ids = append(c.Ids, 1+rng.Intn(12))
			}
			c.Ids[0] = 18 + rng.Intn(3)
			seen := map[int]bool{}
			ids := []int{}
			for _, z := range c.Ids {
				if !seen[z] {
					seen[z] = true
					ids = append(ids, z)
				}
			}
			c.Ids = ids
			if rng.Intn(2) == 0 {
				slices.Reverse(c.Ids)
			}
		}
	}
	// tables
	var tables []*srcTable
	nt := 1 + rng.Intn(3)
	if *mode == "tiny" {
		nt = 1
	}
	kinds := []gsgpkg.GeometryType{gsgpkg.Polygon, gsgpkg.MultiPolygon, gsgpkg.Point, gsgpkg.Linestring, gsgpkg.MultiPoint, gsgpkg.MultiLinestring, gsgpkg.GeometryCollection}
	for ti := 0; ti < nt; ti++ {
		gt := kinds[rng.Intn(len(kinds))]
		if ti == 0 {
			gt = kinds[rng.Intn(2)]
		}
		n := rng.Intn(13)
		if ti == 0 && *mode == "normal" && len(c.Ids) >= 2 && rng.Intn(3) == 0 {
			n = 60 + rng.Intn(120) // long enough for unsynchronised writers to step on each other
		}
		if *mode == "tiny" {
			n = 1
		}
		t := randTable(rng, fmt.Sprintf("tab%d", ti), n, gt)
		t.srs = 28992
		if ti == 0 {
			t.extra = 2 // fid + two attribute columns: the column slice of a feature then has spare capacity (finding F3)
			t.gcolPos = 2
		}
		for i := range t.rows {
			out := rng.Intn(12) == 0 && *mode == "normal" && !otherSet
			switch gt {
			case gsgpkg.Polygon:
				t.rows[i].g = rdPolygon(rng, pix, out)
				c.Outside = c.Outside || out
				if !out && rng.Intn(12) == 0 {
					t.rows[i].g = geom.Polygon{} // POLYGON EMPTY: the library returns nothing for it, so the feature is omitted
				}
			case gsgpkg.MultiPolygon:
				mp := geom.MultiPolygon{}
				for k := 0; k < 1+rng.Intn(3); k++ {
					mp = append(mp, rdPolygon(rng, pix, false))
				}
				if out {
					mp = append(mp, rdPolygon(rng, pix, true))
					c.Outside = true
				} else if rng.Intn(12) == 0 {
					mp = geom.MultiPolygon{} // MULTIPOLYGON EMPTY
				}
				t.rows[i].g = mp
			}
		}
		tables = append(tables, t)
		c.Tables = append(c.Tables, t.name)
	}
	makeSource(filepath.Join(*dir, "src.gpkg"), tables)
	// pre-existing targets with junk content (only within the property's scope: with overwrite)
	if c.Overwrite && rng.Intn(2) == 0 && *mode == "normal" {
		for _, z := range c.Ids {
			if rng.Intn(3) == 0 {
				continue
			}
			rel := injectRef(c.Target, z)
			os.MkdirAll(filepath.Dir(filepath.Join(*dir, "out", rel)), 0o755)
			junk := randTable(rng, "old_junk", 3, gsgpkg.Point)
			junk2 := randTable(rng, c.Tables[0], 2, gsgpkg.Point) // same name as a source table, other content
			makeSource(filepath.Join(*dir, "out", rel), []*srcTable{junk, junk2})
			c.Pre = append(c.Pre, rel)
		}
	}
	if c.Pre == nil {
		c.Pre = []string{}
	}
	os.MkdirAll(filepath.Dir(filepath.Join(*dir, "out", c.Target)), 0o755)
	b, _ := json.Marshal(c)
	fmt.Println(string(b))
	return 0
}

// injectRef is only used to plant pre-existing files where the tool is expected to write; the expectation
// itself (TargetPath) is computed by the TLA+ specification from the characters of the path.
func injectRef(p string, id int) string {
	ext := filepath.Ext(filepath.Base(p))
	return p[:len(p)-len(ext)] + fmt.Sprintf("_%d", id) + ext
}

func chars(s string) []string {
	out := []string{}
	for _, r := range s {
		out = append(out, string(r))
	}
	return out
}

func listFiles(root string) []string {
	var out []string
	filepath.Walk(root, func(p string, info os.FileInfo, err error) error {
		if err == nil && !info.IsDir() {
			rel, _ := filepath.Rel(root, p)
			out = append(out, rel)
		}
		return nil
	})
	sort.Strings(out)
	if out == nil {
		out = []string{}
	}
	return out
}

// cliObserve projects what the binary wrote and what the library returns for every source feature.
func cliObserve(args []string) int {
	fs := flag.NewFlagSet("cli-observe", flag.ExitOnError)
	dir := fs.String("dir", "", "")
	casef := fs.String("case", "", "")
	exit := fs.Int("exit", 0, "")
	panicked := fs.Bool("panic", false, "")
	fs.Parse(args)
	raw, err := os.ReadFile(*casef)
	if err != nil {
		fatal("%v", err)
	}
	var c cliCase
	if err := json.Unmarshal(raw, &c); err != nil {
		fatal("%v", err)
	}
	rec := map[string]any{"case": c, "exit": *exit, "panic": *panicked, "target_chars": chars(c.Target)}
	// the deviation the tool must report when it validates the set (C03, last sentence): that of the DEEPEST requested matrix
	devNeed, devMicro, devMax := false, int64(0), 0
	for _, z := range c.Ids {
		if z > devMax {
			devMax = z
		}
	}
	if c.ValidTms {
		if t, lerr := tms20.LoadEmbeddedTileMatrixSet(c.Tms); lerr == nil {
			if _, units, pixels, derr := pointindex.DeviationStats(t, devMax); derr == nil {
				devNeed, devMicro = pixels >= 1, int64(math.Round(units*1e6))
			}
		}
	}
	rec["dev"] = map[string]any{"need": devNeed, "exp_micro": devMicro, "maxid": devMax}
	files := listFiles(filepath.Join(*dir, "out"))
	fc := [][]string{}
	for _, f := range files {
		fc = append(fc, chars(f))
	}
	rec["files"] = fc
	rec["file_names"] = files
	// library expectations
	srcDump := dumpGpkg(filepath.Join(*dir, "src.gpkg"))
	cfg := snap.Config{KeepPointsAndLines: c.Keep, IgnoreOutsideGrid: c.Iog, ReverseWindingOrder: c.Rwo}
	var tms tms20.TileMatrixSet
	if c.ValidTms {
		tms, err = tms20.LoadEmbeddedTileMatrixSet(c.Tms)
		if err != nil {
			fatal("%v", err)
		}
	}
	type tabExp struct {
		Name string  `json:"name"`
		Kind string  `json:"kind"`
		Lib  [][]int `json:"lib"` // per feature: per requested id (in argument order): number of polygons returned
		geom [][]geom.Geometry
	}
	tabs := []*tabExp{}
	libPanic := false
	for _, name := range c.Tables {
		sd := srcDump[name]
		te := &tabExp{Name: name, Kind: "other", Lib: [][]int{}}
		switch sd.GeomType {
		case "POLYGON":
			te.Kind = "poly"
		case "MULTIPOLYGON":
			te.Kind = "multi"
		}
		for i := range sd.Rows {
			counts := make([]int, len(c.Ids))
			geoms := make([]geom.Geometry, len(c.Ids))
			if te.Kind != "other" && c.ValidTms {
				func() {
					defer func() {
						if r := recover(); r != nil {
							libPanic = true
						}
					}()
					var polys []geom.Polygon
					if te.Kind == "poly" {
						polys = []geom.Polygon{sd.Geoms[i].(geom.Polygon)}
					} else {
						for _, pg := range sd.Geoms[i].(geom.MultiPolygon) {
							polys = append(polys, geom.Polygon(pg))
						}
					}
					merged := map[int][]geom.Polygon{}
					for _, p := range polys {
						res := snap.SnapPolygon(p, tms, c.Ids, cfg)
						for z, ps := range res {
							merged[z] = append(merged[z], ps...)
						}
					}
					for k, z := range c.Ids {
						ps := merged[z]
						counts[k] = len(ps)
						switch {
						case len(ps) == 0:
						case te.Kind == "poly" && len(ps) == 1:
							geoms[k] = ps[0]
						default:
							mp := geom.MultiPolygon{}
							for _, pg := range ps {
								mp = append(mp, pg)
							}
							geoms[k] = mp
						}
					}
				}()
			}
			te.Lib = append(te.Lib, counts)
			te.geom = append(te.geom, geoms)
		}
		tabs = append(tabs, te)
	}
	rec["src"] = tabs
	rec["lib_panic"] = libPanic
	// what was written
	type rowObs struct {
		Src   int    `json:"src"`   // index of the source row with the same attribute values (0: none)
		Cls   string `json:"cls"`   // P | MP | O
		Match bool   `json:"match"` // other tables: geometry equals the source geometry
		Ids   []int  `json:"ids"`   // polygon tables: positions (1-based) of the requested ids whose library geometry it equals
	}
	type tabObs struct {
		Name       string   `json:"name"`
		Rows       []rowObs `json:"rows"`
		Rtree      int      `json:"rtree"`
		NonEmpty   int      `json:"nonempty"`
		ColumnsOK  bool     `json:"columns_ok"`
		GeomMetaOK bool     `json:"geommeta_ok"`
	}
	type fileObs struct {
		Path   []string `json:"path"`
		Tables []tabObs `json:"tables"`
	}
	outs := []fileObs{}
	for _, f := range files {
		fo := fileObs{Path: chars(f), Tables: []tabObs{}}
		func() {
			defer func() {
				if r := recover(); r != nil {
					fo.Tables = append(fo.Tables, tabObs{Name: "!unreadable", Rows: []rowObs{}})
				}
			}()
			if strings.HasSuffix(f, "-journal") || strings.HasSuffix(f, "-wal") || strings.HasSuffix(f, "-shm") {
				fo.Tables = append(fo.Tables, tabObs{Name: "!sqlite-sidecar", Rows: []rowObs{}})
				return
			}
			d, derr := dumpGpkgE(filepath.Join(*dir, "out", f))
			if derr != nil {
				fo.Tables = append(fo.Tables, tabObs{Name: "!unreadable", Rows: []rowObs{}})
				return
			}
			names := []string{}
			for n := range d {
				names = append(names, n)
			}
			sort.Strings(names)
			// which requested id is this file for? decided by the spec from the path; the harness tries every id
			for _, n := range names {
				td := d[n]
				to := tabObs{Name: n, Rows: []rowObs{}, Rtree: len(td.Rtree)}
				sd := srcDump[n]
				var te *tabExp
				for _, t := range tabs {
					if t.Name == n {
						te = t
					}
				}
				if sd != nil {
					to.ColumnsOK = reflect.DeepEqual(sd.Columns, td.Columns)
					to.GeomMetaOK = sd.GeomCol == td.GeomCol && sd.GeomType == td.GeomType && sd.SrsID == td.SrsID && td.Contents
				}
				for k, vals := range td.Rows {
					ro := rowObs{Cls: "O", Ids: []int{}}
					switch td.Geoms[k].(type) {
					case geom.Polygon:
						ro.Cls = "P"
					case geom.MultiPolygon:
						ro.Cls = "MP"
					}
					if !isEmptyGeom(td.Geoms[k]) {
						to.NonEmpty++
					}
					if sd != nil {
						for i, sv := range sd.Rows {
							if reflect.DeepEqual(vals, sv) {
								ro.Src = i + 1
								if te.Kind == "other" {
									ro.Match = geomEqual(td.Geoms[k], sd.Geoms[i])
								} else {
									for kk := range c.Ids {
										if te.geom[i][kk] != nil && geomEqual(td.Geoms[k], te.geom[i][kk]) {
											ro.Ids = append(ro.Ids, kk+1)
										}
									}
								}
								break
							}
						}
					}
					to.Rows = append(to.Rows, ro)
				}
				fo.Tables = append(fo.Tables, to)
			}
		}()
		outs = append(outs, fo)
	}
	rec["out"] = outs
	b, err := json.Marshal(rec)
	if err != nil {
		fatal("%v", err)
	}
	fmt.Println(string(b))
	return 0
}

func isEmptyGeom(g geom.Geometry) bool {
	return normGeom(g) == "EMPTY" || normGeom(g) == "NIL"
}
