package main

import (
	"encoding/json"
	"flag"
	"os"
	"reflect"
	"strings"

	"github.com/pdok/texel/tms20"
)

func init() { register("json-replay", jsonReplay) }

type jmut struct {
	W  string `json:"w"`
	F  string `json:"f"`
	Op string `json:"op"`
}

type jvec struct {
	Muts  []jmut `json:"muts"`
	Class string `json:"class"`
}

// applyMut applies one abstract mutation to a decoded JSON document; returns false if it cannot be applied
// (e.g. the field is absent from this document, or tileMatrices is no longer an array)
func applyMut(doc map[string]any, m jmut) bool {
	var obj map[string]any
	if m.W == "doc" && strings.Contains(m.F, ".") {
		parts := strings.SplitN(m.F, ".", 2)
		inner, ok := doc[parts[0]].(map[string]any)
		if !ok {
			return false
		}
		m.F = parts[1]
		obj = inner
	} else if m.W == "doc" {
		obj = doc
	} else {
		arr, ok := doc["tileMatrices"].([]any)
		if !ok || len(arr) < 4 {
			return false
		}
		idx := map[string]int{"first": 0, "mid": len(arr) / 2, "last": len(arr) - 1}[m.W]
		obj, ok = arr[idx].(map[string]any)
		if !ok {
			return false
		}
	}
	cur, present := obj[m.F]
	switch m.Op {
	case "delete":
		if !present {
			return false
		}
		delete(obj, m.F)
	case "null":
		obj[m.F] = nil
	case "toString":
		obj[m.F] = "x"
	case "toNumber":
		obj[m.F] = 7.0
	case "toArray":
		obj[m.F] = []any{}
	case "toObject":
		obj[m.F] = map[string]any{}
	case "empty":
		obj[m.F] = []any{}
	case "badString":
		obj[m.F] = "not a valid value"
	case "zero":
		obj[m.F] = 0.0
	case "negative":
		obj[m.F] = -3.0
	case "fraction":
		obj[m.F] = 1.5
	case "fine":
		// values with more than nine decimals and of size 1e-12: exact in float64, not fixed points of any decimal rounding
		switch v := cur.(type) {
		case float64:
			obj[m.F] = v*1.0000000001234 + 1e-11
		case []any:
			if len(v) != 2 {
				return false
			}
			a, ok := v[0].(float64)
			if !ok {
				return false
			}
			obj[m.F] = []any{a + 0.123456789012, 3e-12}
		default:
			return false
		}
	case "idAlpha":
		obj[m.F] = "abc"
	case "idFloat":
		obj[m.F] = "1.5"
	case "crsUriObject", "crsWkt", "crsRefSys":
		// the other forms the "crs" value may take (tms20.go unmarshalCRS: oneOf uri string / {uri} / {wkt} / {referenceSystem})
		uri, _ := cur.(string)
		if uri == "" {
			uri = "http://www.opengis.net/def/crs/EPSG/0/28992"
		}
		switch m.Op {
		case "crsUriObject":
			obj[m.F] = map[string]any{"description": "as an object", "uri": uri}
		case "crsWkt":
			code := uri[strings.LastIndex(uri, "/")+1:]
			obj[m.F] = map[string]any{"description": "as projjson", "wkt": map[string]any{"type": "ProjectedCRS", "name": "n", "id": map[string]any{"authority": "EPSG", "code": code}}}
		default:
			obj[m.F] = map[string]any{"referenceSystem": map[string]any{"code": uri, "codeSpace": "x"}}
		}
	case "sameAsPrev":
		// the value the same key has in the previous tile matrix (a tie between two matrices)
		arr, ok := doc["tileMatrices"].([]any)
		if !ok || m.W == "doc" || m.W == "first" {
			return false
		}
		idx := map[string]int{"mid": len(arr) / 2, "last": len(arr) - 1}[m.W]
		prev, ok := arr[idx-1].(map[string]any)
		if !ok {
			return false
		}
		pv, has := prev[m.F]
		if !has {
			return false
		}
		obj[m.F] = pv
	case "dropElement", "elemNumber":
		arr, ok := cur.([]any)
		if !ok || len(arr) < 4 {
			return false
		}
		if m.Op == "dropElement" {
			obj[m.F] = append(append([]any{}, arr[:1]...), arr[2:]...)
		} else {
			n := append([]any{}, arr...)
			n[1] = 7.0
			obj[m.F] = n
		}
	case "arrayLong", "arrayShort", "elemString":
		arr, ok := cur.([]any)
		if !ok || len(arr) != 2 {
			return false
		}
		switch m.Op {
		case "arrayLong":
			obj[m.F] = append(append([]any{}, arr...), 3.0)
		case "arrayShort":
			obj[m.F] = []any{arr[0]}
		default:
			obj[m.F] = []any{"a", arr[1]}
		}
	default:
		fatal("unknown op %s", m.Op)
	}
	return true
}

func jsonReplay(args []string) int {
	fs := flag.NewFlagSet("json-replay", flag.ExitOnError)
	in := fs.String("in", "-", "")
	outp := fs.String("out", "-", "")
	fs.Parse(args)
	raws := map[string][]byte{}
	origs := map[string]any{}
	for _, name := range builtinSets {
		raw, err := os.ReadFile(repoFile("tms20/tilematrixsets/" + name + ".json"))
		if err != nil {
			fatal("%v", err)
		}
		raws[name] = raw
		var a any
		json.Unmarshal(raw, &a)
		origs[name] = a
	}
	out := newJSONL(*outp)
	defer out.close()
	readJSONLines(*in, func(line []byte) {
		var v jvec
		if err := json.Unmarshal(line, &v); err != nil {
			fatal("bad vector: %v", err)
		}
		if v.Muts == nil {
			v.Muts = []jmut{}
		}
		for _, name := range builtinSets {
			var doc map[string]any
			json.Unmarshal(raws[name], &doc)
			applied := true
			// fixed order: tile-matrix-level mutations first, then document-level ones
			for pass := 0; pass < 2; pass++ {
				for _, m := range v.Muts {
					if (m.W == "doc") == (pass == 1) {
						if !applyMut(doc, m) {
							applied = false
						}
					}
				}
			}
			b, _ := json.Marshal(doc)
			rec := map[string]any{"doc": name, "muts": v.Muts, "applied": applied, "rt_equal": false, "rt_stable": false, "orig_equal": false}
			func() {
				defer func() {
					if r := recover(); r != nil {
						rec["outcome"] = "panic"
						rec["msg"] = panicString(r)
					}
				}()
				var t tms20.TileMatrixSet
				if err := json.Unmarshal(b, &t); err != nil {
					rec["outcome"] = "error"
					rec["msg"] = firstN(err.Error(), 120)
					return
				}
				rec["outcome"] = "ok"
				enc, err := json.Marshal(&t)
				if err != nil {
					rec["msg"] = "encode: " + err.Error()
					return
				}
				var t2 tms20.TileMatrixSet
				if err := json.Unmarshal(enc, &t2); err != nil {
					rec["msg"] = "re-decode: " + firstN(err.Error(), 120)
					return
				}
				enc2, _ := json.Marshal(&t2)
				rec["rt_equal"] = reflect.DeepEqual(t, t2)
				stable := string(enc) == string(enc2)
				for k := 0; k < 6 && stable; k++ { // an encoding that depends on map iteration order shows in a few repetitions
					again, _ := json.Marshal(&t2)
					first, _ := json.Marshal(&t)
					stable = string(again) == string(enc2) && string(first) == string(enc)
				}
				rec["rt_stable"] = stable
				var re any
				json.Unmarshal(enc, &re)
				rec["orig_equal"] = reflect.DeepEqual(re, origs[name])
			}()
			out.put(rec)
		}
	})
	return 0
}

func firstN(s string, n int) string {
	if len(s) > n {
		return s[:n]
	}
	return s
}
