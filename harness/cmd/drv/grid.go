package main

import (
	"encoding/json"
	"fmt"
	"math"
	"math/bits"

	"github.com/pdok/texel/tms20"
)

// synGrid is a synthetic dyadic quadtree tile matrix set: span 2^M CRS units, tile width TW pixels,
// lower-left corner (X0, Y0). All coordinates the harness uses on it are multiples of 2^-10, which
// survive texel's float -> int64 (x 1e10) conversion exactly.
type synGrid struct {
	TW     uint
	M      int
	X0, Y0 float64
	Corner string
	NZ     int // tile matrices 0..NZ-1
	tms    tms20.TileMatrixSet
}

func log2u(v uint) int { return bits.Len(v) - 1 }

func newSynGrid(tw uint, m int, x0, y0 float64, corner string, nz int) *synGrid {
	return newSynGridAxes(tw, m, x0, y0, corner, nz, false)
}

// newSynGridAxes: with swapped = true the document is written in a northing/easting CRS (EPSG:3035, orderedAxes Y, X):
// pointOfOrigin holds [y, x]; the geometry in x,y order is the same as for swapped = false.
func newSynGridAxes(tw uint, m int, x0, y0 float64, corner string, nz int, swapped bool) *synGrid {
	return newSynGridFull(tw, m, x0, y0, corner, nz, swapped, false)
}

func newSynGridFull(tw uint, m int, x0, y0 float64, corner string, nz int, swapped, declaredBBox bool) *synGrid {
	g := &synGrid{TW: tw, M: m, X0: x0, Y0: y0, Corner: corner, NZ: nz}
	span := math.Ldexp(1, m)
	type tmJSON struct {
		ID               string     `json:"id"`
		ScaleDenominator float64    `json:"scaleDenominator"`
		CellSize         float64    `json:"cellSize"`
		CornerOfOrigin   string     `json:"cornerOfOrigin"`
		PointOfOrigin    [2]float64 `json:"pointOfOrigin"`
		TileWidth        uint       `json:"tileWidth"`
		TileHeight       uint       `json:"tileHeight"`
		MatrixWidth      uint       `json:"matrixWidth"`
		MatrixHeight     uint       `json:"matrixHeight"`
	}
	var tms []tmJSON
	oy := y0
	if corner == "topLeft" {
		oy = y0 + span
	}
	for z := 0; z < nz; z++ {
		cell := span / float64(tw) / math.Ldexp(1, z)
		tms = append(tms, tmJSON{ID: fmt.Sprint(z), ScaleDenominator: cell / 0.00028, CellSize: cell, CornerOfOrigin: corner,
			PointOfOrigin: [2]float64{x0, oy}, TileWidth: tw, TileHeight: tw, MatrixWidth: 1 << uint(z), MatrixHeight: 1 << uint(z)})
	}
	doc := map[string]any{
		"id": "Synthetic", "title": "synthetic dyadic grid", "crs": "http://www.opengis.net/def/crs/EPSG/0/28992",
		"orderedAxes": []string{"X", "Y"}, "tileMatrices": tms,
	}
	if declaredBBox {
		// a declared bounding box that is NOT the extent of the root matrix (an area-of-use box rounded outward): it must not
		// take part in tile addressing or in deciding what lies inside the grid
		doc["boundingBox"] = map[string]any{"lowerLeft": []float64{x0 - span/8, y0 - span/4}, "upperRight": []float64{x0 + span*1.25, y0 + span*1.125},
			"crs": "http://www.opengis.net/def/crs/EPSG/0/28992"}
	}
	if swapped {
		for i := range tms {
			tms[i].PointOfOrigin = [2]float64{tms[i].PointOfOrigin[1], tms[i].PointOfOrigin[0]}
		}
		doc["crs"] = "http://www.opengis.net/def/crs/EPSG/0/3035"
		doc["orderedAxes"] = []string{"Y", "X"}
	}
	b, err := json.Marshal(doc)
	if err != nil {
		fatal("syn grid: %v", err)
	}
	if err := json.Unmarshal(b, &g.tms); err != nil {
		fatal("syn grid does not decode: %v", err)
	}
	return g
}

func (g *synGrid) levelOf(z int) int     { return z + log2u(g.TW) + 4 }
func (g *synGrid) zOf(level int) int     { return level - log2u(g.TW) - 4 }
func (g *synGrid) pix(level int) float64 { return math.Ldexp(1, g.M-level) }

// exactUnit reports whether v is a multiple of 2^-10 below the int64/1e10 range (harness self-check).
func exactUnit(v float64) bool {
	s := v * 1024
	return s == math.Trunc(s) && math.Abs(v) < 9e8
}
