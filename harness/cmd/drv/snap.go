package main

import (
	"encoding/binary"
	"encoding/json"
	"flag"
	"hash/fnv"
	"math"
	"math/rand"
	"slices"
	"sort"
	"strconv"
	"strings"
	"time"

	"github.com/go-spatial/geom"
	"github.com/pdok/texel/snap"
	"github.com/pdok/texel/tms20"
)

func init() {
	register("snap-trace", snapTrace)
	register("snap-replay", snapReplay)
}

func synGridByName(name string) *synGrid {
	if g, ok := synGridCache[name]; ok {
		return g
	}
	for _, d := range synGridDefs {
		if d.name == name {
			g := newSynGrid(d.tw, d.m, d.x0, d.y0, d.corner, d.nz)
			synGridCache[name] = g
			return g
		}
	}
	fatal("unknown grid %s", name)
	return nil
}

// snapReplay re-executes recorded calls (records on stdin) against the current code and prints fresh records.
func snapReplay(args []string) int {
	fs := flag.NewFlagSet("snap-replay", flag.ExitOnError)
	in := fs.String("in", "-", "")
	steps := fs.Bool("steps", false, "")
	fs.Parse(args)
	recordSteps = *steps
	out := newJSONL("-")
	defer out.close()
	readJSONLines(*in, func(line []byte) {
		var r snapRec
		if err := json.Unmarshal(line, &r); err != nil {
			fatal("bad record: %v", err)
		}
		sg := &snapGrid{g: synGridByName(r.Grid), name: r.Grid, ids: r.IDs, ox: r.OX, oy: r.OY}
		ids := []int{}
		for _, e := range r.Lv {
			ids = append(ids, e.Z)
		}
		rec := runSnap(sg, r.Poly, ids, snap.Config{KeepPointsAndLines: r.Keep, IgnoreOutsideGrid: r.Ig, ReverseWindingOrder: r.Rev}, r.W)
		rec.G, rec.V, rec.Tag = r.G, r.V, r.Tag
		out.put(rec)
	})
	return 0
}

// lvRec: a requested tile matrix and how many levels it is coarser than the group's finest level
type lvRec struct {
	Z int `json:"z"`
	K int `json:"k"`
}

type resRec struct {
	Z     int          `json:"z"`
	Polys [][][][2]int `json:"polys"`
	Fp    string       `json:"fp"` // fingerprint of the exact float64 bit patterns of every returned ordinate, in order
}

func fpOf(polys []geom.Polygon) string {
	h := fnv.New64a()
	var b [8]byte
	for _, p := range polys {
		h.Write([]byte{1})
		for _, ring := range p {
			h.Write([]byte{2})
			for _, c := range ring {
				for a := 0; a < 2; a++ {
					binary.LittleEndian.PutUint64(b[:], math.Float64bits(c[a]))
					h.Write(b[:])
				}
			}
		}
	}
	return strconv.FormatUint(h.Sum64(), 16)
}

type snapRec struct {
	G     int        `json:"g"`   // group: records of one input, consecutive in the trace
	V     string     `json:"v"`   // which variant of the group this is (informational)
	Tag   string     `json:"tag"` // generator (informational)
	Grid  string     `json:"grid"`
	Lv    []lvRec    `json:"lv"`
	Poly  [][][2]int `json:"poly"`
	Keep  bool       `json:"keep"`
	Ig    bool       `json:"ig"`
	Rev   bool       `json:"rev"`
	Out   string     `json:"out"` // "ok" | "panic: ..."
	Res   []resRec   `json:"res"`
	Exact bool       `json:"exact"`
	Ms    int        `json:"ms"`
	Nv    int        `json:"nv"`
	W     int        `json:"w"`  // window size in finest pixels (bounds the sample locations of C04)
	OX    int        `json:"ox"` // placement of the window (finest pixels) and the group's tile matrix ids: enough to re-run the call
	OY    int        `json:"oy"`
	IDs   []int      `json:"ids"`
	Steps []stepRec  `json:"steps"` // intermediate results of addPointsAndSnap (only with -steps)
	InMut bool       `json:"inmut"` // the call changed the polygon value it was given
}

// the polygon value of the previous call of the group: the "again" variant snaps the SAME value a second time (a call that
// rewrites its argument in place is only visible then)
var (
	reuseInput bool
	lastInput  geom.Polygon
)

// stepRec: one intermediate result reported through snap.VerifTrace, projected like the final result
type stepRec struct {
	E     string       `json:"e"`     // seg | ring | drop | asm
	R     int          `json:"r"`     // ring index (0-based), -1 for asm
	I     int          `json:"i"`     // vertex index of the segment (seg only)
	K     int          `json:"k"`     // level as coarsening exponent relative to the group's finest level
	Pts   [][2]int     `json:"pts"`   // seg: vertices appended; ring: the routed ring as handed to the clean-up
	O     [][][2]int   `json:"o"`     // ring: outer rings
	In    [][][2]int   `json:"in"`    // ring: inner rings
	P     [][][2]int   `json:"p"`     // ring: points and lines
	Polys [][][][2]int `json:"polys"` // asm: polygons of the level
}

var recordSteps = false

// snapGrid: where the window of a group sits
type snapGrid struct {
	g      *synGrid
	name   string
	ids    []int // tile matrix ids of the group (ascending); finest = last
	ox, oy int   // window offset in finest pixels (multiple of 2^kmax)
}

func (sg *snapGrid) finest() int { return sg.g.levelOf(sg.ids[len(sg.ids)-1]) }

func (sg *snapGrid) toReal(p [2]int) geom.Point {
	u := sg.g.pix(sg.finest()) / 4
	x := sg.g.X0 + float64(sg.ox*4+p[0])*u
	y := sg.g.Y0 + float64(sg.oy*4+p[1])*u
	if !exactUnit(x) || !exactUnit(y) {
		fatal("inexact coordinate on %s", sg.name)
	}
	return geom.Point{x, y}
}

func (sg *snapGrid) fromReal(c [2]float64) (q [2]int, exact bool) {
	u := sg.g.pix(sg.finest()) / 4
	fx := (c[0]-sg.g.X0)/u - float64(sg.ox*4)
	fy := (c[1]-sg.g.Y0)/u - float64(sg.oy*4)
	q = [2]int{int(math.Round(fx)), int(math.Round(fy))}
	return q, float64(q[0]) == fx && float64(q[1]) == fy
}

var synGridDefs = []struct {
	name   string
	tw     uint
	m      int
	x0, y0 float64
	corner string
	nz     int
}{
	{"syn-a", 1, 4, 0, 0, "bottomLeft", 3},            // levels 4,5,6
	{"syn-b", 2, 6, -1024.5, 2048.25, "topLeft", 3},   // levels 5,6,7
	{"syn-c", 16, 10, 12345.5, 678.25, "topLeft", 2},  // levels 8,9
	{"syn-d", 1, 3, 100, 100, "bottomLeft", 4},        // levels 4..7
	{"syn-e", 256, 12, -2048, -2048, "bottomLeft", 2}, // levels 12,13
}

var synGridCache = map[string]*synGrid{}

func pickSnapGrid(rng *rand.Rand, w int) *snapGrid {
	d := synGridDefs[rng.Intn(len(synGridDefs))]
	g, ok := synGridCache[d.name]
	if !ok {
		g = newSynGrid(d.tw, d.m, d.x0, d.y0, d.corner, d.nz)
		synGridCache[d.name] = g
	}
	// choose 1..3 ids among the available ones
	all := rng.Perm(d.nz)
	n := 1 + rng.Intn(min(3, d.nz))
	ids := append([]int{}, all[:n]...)
	sort.Ints(ids)
	sg := &snapGrid{g: g, name: d.name, ids: ids}
	kmax := g.levelOf(ids[len(ids)-1]) - g.levelOf(ids[0])
	align := 1 << uint(kmax)
	n_ := 1 << uint(sg.finest())
	room := (n_ - (w + 1)) / align
	if room < 0 {
		// window does not fit: use only the finest available id
		sg.ids = []int{d.nz - 1}
		align = 1
		n_ = 1 << uint(sg.finest())
		room = n_ - (w + 1)
	}
	switch rng.Intn(4) {
	case 0:
		sg.ox, sg.oy = 0, 0
	case 1:
		sg.ox, sg.oy = room*align, room*align
	case 2: // straddle the centre of the grid
		c := (n_/2 - w/2) / align * align
		sg.ox, sg.oy = c, c
	default:
		sg.ox, sg.oy = rng.Intn(room+1)*align, rng.Intn(room+1)*align
	}
	return sg
}

func runSnap(sg *snapGrid, poly lpoly, ids []int, cfg snap.Config, w int) snapRec {
	rec := snapRec{OX: sg.ox, OY: sg.oy, IDs: sg.ids, Grid: sg.name, Poly: poly, Keep: cfg.KeepPointsAndLines, Ig: cfg.IgnoreOutsideGrid, Rev: cfg.ReverseWindingOrder, Exact: true, W: w, Res: []resRec{}}
	fin := sg.finest()
	rec.Lv = []lvRec{}
	for _, z := range ids {
		rec.Lv = append(rec.Lv, lvRec{Z: z, K: fin - sg.g.levelOf(z)})
	}
	gp := make(geom.Polygon, len(poly))
	for i, ring := range poly {
		gp[i] = make([][2]float64, len(ring))
		for j, p := range ring {
			gp[i][j] = sg.toReal(p)
		}
		rec.Nv += len(ring)
		if rec.Poly[i] == nil {
			rec.Poly[i] = [][2]int{}
		}
	}
	var res map[tms20.TMID][]geom.Polygon
	rec.Steps = []stepRec{}
	if recordSteps {
		projRing := func(r [][2]float64) [][2]int {
			o := [][2]int{}
			for _, c := range r {
				q, ex := sg.fromReal(c)
				if !ex {
					rec.Exact = false
				}
				o = append(o, q)
			}
			return o
		}
		projRings := func(rs [][][2]float64) [][][2]int {
			o := [][][2]int{}
			for _, r := range rs {
				o = append(o, projRing(r))
			}
			return o
		}
		snap.VerifTrace = func(ev string, a ...any) {
			st := stepRec{E: ev, R: -1, Pts: [][2]int{}, O: [][][2]int{}, In: [][][2]int{}, P: [][][2]int{}, Polys: [][][][2]int{}}
			switch ev {
			case "seg":
				st.R, st.I, st.K = a[0].(int), a[1].(int), fin-int(a[2].(uint))
				st.Pts = projRing(a[3].([][2]float64))
			case "ring":
				st.R, st.K = a[0].(int), fin-int(a[1].(uint))
				st.Pts = projRing(a[2].([][2]float64))
				st.O, st.In, st.P = projRings(a[3].([][][2]float64)), projRings(a[4].([][][2]float64)), projRings(a[5].([][][2]float64))
			case "drop":
				st.R, st.K = a[0].(int), fin-int(a[1].(uint))
			case "assembled":
				st.E = "asm"
				st.K = fin - int(a[0].(uint))
				for _, p := range a[1].([][][][2]float64) {
					st.Polys = append(st.Polys, projRings(p))
				}
			}
			rec.Steps = append(rec.Steps, st)
		}
		defer func() { snap.VerifTrace = nil }()
	}
	if reuseInput && lastInput != nil && len(lastInput) == len(gp) {
		gp = lastInput
	}
	before := make(geom.Polygon, len(gp))
	for i := range gp {
		before[i] = append([][2]float64{}, gp[i]...)
	}
	t0 := time.Now()
	func() {
		defer func() {
			if r := recover(); r != nil {
				rec.Out = "panic: " + strings.SplitN(panicString(r), "\n", 2)[0]
			}
		}()
		res = snap.SnapPolygon(gp, sg.g.tms, ids, cfg)
		rec.Out = "ok"
	}()
	for i := range gp {
		if !slices.Equal(gp[i], before[i]) {
			rec.InMut = true
		}
	}
	lastInput = gp
	rec.Ms = int(time.Since(t0).Milliseconds())
	zs := make([]int, 0, len(res))
	for z := range res {
		zs = append(zs, z)
	}
	sort.Ints(zs)
	for _, z := range zs {
		rr := resRec{Z: z, Polys: [][][][2]int{}, Fp: fpOf(res[z])}
		for _, p := range res[z] {
			pp := [][][2]int{}
			for _, ring := range p {
				r := [][2]int{}
				for _, c := range ring {
					q, ex := sg.fromReal(c)
					if !ex {
						rec.Exact = false
					}
					r = append(r, q)
				}
				pp = append(pp, r)
			}
			rr.Polys = append(rr.Polys, pp)
		}
		rec.Res = append(rec.Res, rr)
	}
	return rec
}

func subsetsOf(ids []int) [][]int {
	var out [][]int
	for m := 1; m < 1<<uint(len(ids))-1; m++ {
		var s []int
		for i, z := range ids {
			if m&(1<<uint(i)) != 0 {
				s = append(s, z)
			}
		}
		out = append(out, s)
	}
	return out
}

func snapTrace(args []string) int {
	fs := flag.NewFlagSet("snap-trace", flag.ExitOnError)
	seed := fs.Int64("seed", 1, "")
	n := fs.Int("n", 200, "number of inputs (groups)")
	w := fs.Int("W", 6, "window size in finest pixels")
	nmax := fs.Int("nmax", 12, "max vertices per ring")
	gens := fs.String("gens", "star,hole,collapse", "generator mix: star,hole,collapse,arbitrary")
	variants := fs.String("variants", "base", "comma list of: base,again,keep,rev,ringrev,subsets")
	bias := fs.Float64("bias", 0.5, "probability to align a coordinate to pixel borders/centres")
	outp := fs.String("out", "-", "")
	g0 := fs.Int("g0", 0, "first group id")
	steps := fs.Bool("steps", false, "record the intermediate results of addPointsAndSnap")
	fs.Parse(args)
	recordSteps = *steps
	rng := rand.New(rand.NewSource(*seed))
	out := newJSONL(*outp)
	defer out.close()
	genList := strings.Split(*gens, ",")
	want := map[string]bool{}
	for _, v := range strings.Split(*variants, ",") {
		want[v] = true
	}
	for i := 0; i < *n; i++ {
		gname := genList[rng.Intn(len(genList))]
		var poly lpoly
		b := *bias
		if rng.Intn(4) == 0 {
			b = 0.95
		}
		switch gname {
		case "star":
			poly = genStarPoly(rng, *w, *nmax, b, false)
		case "hole":
			poly = genStarPoly(rng, *w, *nmax, b, true)
		case "collapse":
			poly = genCollapse(rng, *w, rng.Intn(6))
		case "rect":
			poly = genRect(rng, *w)
		case "spiral":
			poly = genSpiral(rng, *w)
		case "court":
			poly = genCourt(rng, *w)
		case "courtbig":
			poly = genCourtSized(rng, *w, true)
		case "dart":
			poly = genDart(rng, *w)
		case "arbitrary":
			poly = genArbitrary(rng, *w, *nmax)
		default:
			fatal("unknown generator %s", gname)
		}
		sg := pickSnapGrid(rng, *w)
		cfg := snap.Config{KeepPointsAndLines: rng.Intn(2) == 0, IgnoreOutsideGrid: rng.Intn(2) == 0, ReverseWindingOrder: rng.Intn(3) == 0}
		emit := func(v string, p lpoly, ids []int, c snap.Config) {
			rec := runSnap(sg, p, ids, c, *w)
			rec.G, rec.V, rec.Tag = *g0+i, v, gname
			out.put(rec)
		}
		// the ids are requested in ascending order in two calls out of three, otherwise reversed or shuffled (the API takes a slice)
		req := append([]int{}, sg.ids...)
		if len(req) > 1 {
			switch rng.Intn(6) {
			case 0:
				slices.Reverse(req)
			case 1:
				rng.Shuffle(len(req), func(a, b int) { req[a], req[b] = req[b], req[a] })
			}
		}
		emit("base", poly, req, cfg)
		if want["again"] {
			reuseInput = true
			emit("again", poly, req, cfg)
			reuseInput = false
		}
		if want["keep"] {
			c := cfg
			c.KeepPointsAndLines = !c.KeepPointsAndLines
			emit("keep", poly, req, c)
		}
		if want["rev"] {
			c := cfg
			c.ReverseWindingOrder = !c.ReverseWindingOrder
			emit("rev", poly, req, c)
		}
		if want["ringrev"] {
			for t := 0; t < min(len(poly), 2); t++ {
				p2 := make(lpoly, len(poly))
				any := false
				for r := range poly {
					if (t == 0 && r == 0) || (t == 1 && rng.Intn(2) == 0) {
						p2[r] = reverseRing(poly[r])
						any = true
					} else {
						p2[r] = poly[r]
					}
				}
				if any {
					emit("ringrev", p2, req, cfg)
				}
			}
		}
		if want["subsets"] && len(sg.ids) > 1 {
			for _, s := range subsetsOf(sg.ids) {
				if len(s) > 1 && rng.Intn(2) == 0 {
					slices.Reverse(s)
				}
				emit("subset", poly, s, cfg)
			}
			perm := append([]int{}, sg.ids...)
			slices.Reverse(perm)
			if slices.Equal(perm, req) {
				slices.Reverse(perm)
			}
			emit("subset", poly, perm, cfg) // the full set in another order
		}
	}
	return 0
}
