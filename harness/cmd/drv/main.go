// Command drv is the Go side of the /verif machinery: it only generates inputs, runs the real
// texel code (built from /repo's working tree with -tags verif), projects what it observes to
// small integers and writes ndjson for TLC. All property logic lives in /verif/spec/*.tla.
package main

import (
	"bufio"
	"encoding/json"
	"fmt"
	"os"
	"sort"
)

type cmdFn func(args []string) int

var commands = map[string]cmdFn{}

func register(name string, fn cmdFn) { commands[name] = fn }

func main() {
	if len(os.Args) < 2 {
		usage()
		os.Exit(2)
	}
	fn, ok := commands[os.Args[1]]
	if !ok {
		usage()
		os.Exit(2)
	}
	os.Exit(fn(os.Args[2:]))
}

func usage() {
	names := make([]string, 0, len(commands))
	for n := range commands {
		names = append(names, n)
	}
	sort.Strings(names)
	fmt.Fprintln(os.Stderr, "usage: drv <command> [flags]; commands:", names)
}

// ndjson writer
type jsonl struct {
	w *bufio.Writer
	f *os.File
	n int
}

func newJSONL(path string) *jsonl {
	if path == "" || path == "-" {
		return &jsonl{w: bufio.NewWriterSize(os.Stdout, 1<<20)}
	}
	f, err := os.Create(path)
	if err != nil {
		fatal("create %s: %v", path, err)
	}
	return &jsonl{w: bufio.NewWriterSize(f, 1<<20), f: f}
}

func (j *jsonl) put(v any) {
	b, err := json.Marshal(v)
	if err != nil {
		fatal("marshal: %v", err)
	}
	j.w.Write(b)
	j.w.WriteByte('\n')
	j.n++
}

func (j *jsonl) flush() { j.w.Flush() }

func (j *jsonl) close() {
	j.w.Flush()
	if j.f != nil {
		j.f.Close()
	}
}

func fatal(format string, a ...any) {
	fmt.Fprintf(os.Stderr, "drv: "+format+"\n", a...)
	os.Exit(2)
}

func readJSONLines(path string, each func(line []byte)) {
	var f *os.File
	if path == "" || path == "-" {
		f = os.Stdin
	} else {
		var err error
		f, err = os.Open(path)
		if err != nil {
			fatal("open %s: %v", path, err)
		}
		defer f.Close()
	}
	sc := bufio.NewScanner(f)
	sc.Buffer(make([]byte, 1<<20), 1<<28)
	for sc.Scan() {
		b := sc.Bytes()
		if len(b) == 0 {
			continue
		}
		each(b)
	}
	if err := sc.Err(); err != nil {
		fatal("read %s: %v", path, err)
	}
}

func panicString(r any) string {
	switch t := r.(type) {
	case error:
		return t.Error()
	case string:
		return t
	default:
		return fmt.Sprint(r)
	}
}
