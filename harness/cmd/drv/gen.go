package main

import (
	"math"
	"math/rand"
	"sort"
)

// Generators of lattice polygons inside a window of w x w finest-level pixels, 4 lattice units per pixel.
// They only propose inputs; whether an input is a valid polygon is decided by the TLA+ predicate Valid.

type lpoly [][][2]int // rings of lattice points

func biasCoord(rng *rand.Rand, c, max int, bias float64) int {
	if rng.Float64() < bias {
		// move onto a pixel border (multiple of 4) or a pixel centre (2 mod 4)
		if rng.Intn(3) == 0 {
			c = c/4*4 + 2
		} else {
			c = (c + 2) / 4 * 4
		}
	}
	if c < 0 {
		c = 0
	}
	if c > max {
		c = max
	}
	return c
}

// star-shaped ring around (cx,cy)
func genStar(rng *rand.Rand, cx, cy, rmin, rmax float64, n, max int, bias float64) [][2]int {
	angles := make([]float64, n)
	for i := range angles {
		angles[i] = rng.Float64() * 2 * math.Pi
	}
	sort.Float64s(angles)
	ring := make([][2]int, 0, n)
	for _, a := range angles {
		r := rmin + rng.Float64()*(rmax-rmin)
		x := biasCoord(rng, int(math.Round(cx+r*math.Cos(a))), max, bias)
		y := biasCoord(rng, int(math.Round(cy+r*math.Sin(a))), max, bias)
		p := [2]int{x, y}
		if len(ring) > 0 && ring[len(ring)-1] == p {
			continue
		}
		ring = append(ring, p)
	}
	if len(ring) > 1 && ring[0] == ring[len(ring)-1] {
		ring = ring[:len(ring)-1]
	}
	return ring
}

func reverseRing(r [][2]int) [][2]int {
	o := make([][2]int, len(r))
	for i := range r {
		o[len(r)-1-i] = r[i]
	}
	return o
}

func genStarPoly(rng *rand.Rand, w, nmax int, bias float64, hole bool) lpoly {
	max := w * 4
	c := float64(max) / 2
	n := 3 + rng.Intn(nmax-2)
	rmax := c * (0.5 + 0.5*rng.Float64())
	rminOuter := rmax * (0.3 + 0.6*rng.Float64())
	if hole {
		rminOuter = rmax * (0.6 + 0.3*rng.Float64())
	}
	cx, cy := c+rng.Float64()*4-2, c+rng.Float64()*4-2
	p := lpoly{genStar(rng, cx, cy, rminOuter, rmax, n, max, bias)}
	if hole {
		hr := rminOuter * (0.2 + 0.6*rng.Float64())
		h := genStar(rng, cx, cy, hr*0.5, hr, 3+rng.Intn(5), max, bias)
		if rng.Intn(2) == 0 {
			h = reverseRing(h)
		}
		p = append(p, h)
	}
	if rng.Intn(2) == 0 {
		p[0] = reverseRing(p[0])
	}
	return p
}

// thin shapes that collapse at coarse levels: sliver, comb, pinched neck, frame with hole, serpentine
func genCollapse(rng *rand.Rand, w int, kind int) lpoly {
	max := w * 4
	jit := func(v int) int {
		v += rng.Intn(3) - 1
		if v < 0 {
			v = 0
		}
		if v > max {
			v = max
		}
		return v
	}
	switch kind % 6 {
	case 5: // hourglass: two lobes joined by a neck narrower than a pixel, optionally a hole whose tip reaches into the neck pixel
		m := max / 2 / 4 * 4 // neck pixel [m, m+4)
		nw := 1 + rng.Intn(2)
		ny0 := m + 1 // both neck vertices and the hole's tip inside the one finest-level pixel [m, m+4)
		lobe := max/4 + rng.Intn(max/4)
		if lobe > m {
			lobe = m
		}
		x0, x1 := m+2-lobe-2, m+2+lobe+2
		if x0 < 0 {
			x0 = 0
		}
		if x1 > max {
			x1 = max
		}
		h := 4 + rng.Intn(lobe)
		outer := [][2]int{{x0, ny0 - h}, {m + 2, ny0}, {x1, ny0 - h}, {x1, ny0 + nw + h}, {m + 2, ny0 + nw}, {x0, ny0 + nw + h}}
		for i := range outer {
			if outer[i][1] < 0 {
				outer[i][1] = 0
			}
			if outer[i][1] > max {
				outer[i][1] = max
			}
		}
		p := lpoly{outer}
		if rng.Intn(3) > 0 && lobe >= 6 {
			// hole in one lobe: a tip just inside the neck pixel, the rest well inside the lobe
			var hole [][2]int
			ty := ny0 + (nw+1)/2
			// the far side of the hole: as tall as the lobe allows at three quarters of its depth
			far := lobe * 3 / 4
			half := h*far/(lobe+2) - 2
			if half < 2 {
				half = 2
			}
			if rng.Intn(2) == 0 { // left lobe
				hole = [][2]int{{m + 1, ty}, {m + 2 - far, ty - half + rng.Intn(2)}, {m + 2 - far, ty + half - rng.Intn(2)}}
			} else {
				hole = [][2]int{{m + 3, ty}, {m + 2 + far, ty + half - rng.Intn(2)}, {m + 2 + far, ty - half + rng.Intn(2)}}
			}
			rot := 0
			if rng.Intn(2) == 0 {
				rot = rng.Intn(3)
			}
			hole = append(hole[rot:], hole[:rot]...)
			if rng.Intn(2) == 0 {
				hole = reverseRing(hole)
			}
			p = append(p, hole)
		}
		if rng.Intn(2) == 0 { // transpose
			for r := range p {
				for i := range p[r] {
					p[r][i] = [2]int{p[r][i][1], p[r][i][0]}
				}
			}
		}
		return p
	case 0: // sliver: long thin quadrilateral / triangle
		x0, y0 := rng.Intn(max/3), rng.Intn(max)
		x1 := x0 + max/3 + rng.Intn(max/3)
		y1 := jit(y0 + rng.Intn(7) - 3)
		t := 1 + rng.Intn(3)
		r := [][2]int{{x0, y0}, {x1, y1}, {x1, jit(y1 + t)}, {x0, jit(y0 + t)}}
		if rng.Intn(2) == 0 {
			r = r[:3]
		}
		if rng.Intn(2) == 0 { // transpose
			for i := range r {
				r[i] = [2]int{r[i][1], r[i][0]}
			}
		}
		return lpoly{r}
	case 1: // comb: base with thin teeth
		tw := 1 + rng.Intn(3)  // tooth width in lattice units
		gap := 1 + rng.Intn(6) // gap between teeth
		teeth := 2 + rng.Intn(3)
		for teeth > 1 && teeth*(tw+gap)-gap > max-3 {
			teeth--
		}
		base := 2 + rng.Intn(8)
		h := base + 3 + rng.Intn(max-base-2)
		if h > max {
			h = max
		}
		x := rng.Intn(3)
		end := x + teeth*(tw+gap) - gap
		r := [][2]int{{x, 0}, {end, 0}}
		for k := teeth - 1; k >= 0; k-- {
			l := x + k*(tw+gap)
			r = append(r, [2]int{l + tw, base}, [2]int{l + tw, h}, [2]int{l, h}, [2]int{l, base})
		}
		return lpoly{dedupConsecutive(r)}
	case 2: // pinched neck: two blobs joined by a thin corridor
		m := max / 2
		a := 3 + rng.Intn(max/2-3)
		nw := 1 + rng.Intn(3)
		y := 4 + rng.Intn(max-8-nw+1)
		r := [][2]int{{0, jit(y - a/2)}, {m - 2, y}, {m + 2, y}, {max, jit(y - a/2)}, {max, jit(y + a/2)}, {m + 2, y + nw}, {m - 2, y + nw}, {0, jit(y + a/2)}}
		return lpoly{dedupConsecutive(r)}
	case 3: // thin-walled frame with a hole
		o := rng.Intn(4)
		s := 8 + rng.Intn(max-8-o+1-1)
		t := 1 + rng.Intn(4)
		if s-2*t < 2 {
			t = 1
		}
		sh := [][2]int{{o, o}, {o + s, o}, {o + s, o + s}, {o, o + s}}
		ho := [][2]int{{o + t, o + t}, {o + t, o + s - t}, {o + s - t, o + s - t}, {o + s - t, o + t}}
		return lpoly{sh, ho}
	default: // serpentine corridor of width < 1 pixel
		wd := 1 + rng.Intn(3)
		step := 3 + rng.Intn(6)
		turns := 2 + rng.Intn(3)
		x := rng.Intn(3)
		var up, down [][2]int
		y := 0
		for t := 0; t <= turns && y+wd <= max; t++ {
			if t%2 == 0 {
				up = append(up, [2]int{x, y}, [2]int{max - x - wd, y})
				down = append(down, [2]int{x, y + wd}, [2]int{max - x, y + wd})
			} else {
				up = append(up, [2]int{max - x, y}, [2]int{x + wd, y})
				down = append(down, [2]int{max - x - wd, y + wd}, [2]int{x, y + wd})
			}
			y += step
		}
		_ = down
		// simple zig-zag band: go along "up" then back along an offset copy
		r := append([][2]int{}, up...)
		for i := len(up) - 1; i >= 0; i-- {
			q := up[i]
			ny := q[1] + wd
			if ny > max {
				ny = max
			}
			r = append(r, [2]int{q[0], ny})
		}
		return lpoly{dedupConsecutive(r)}
	}
}

func dedupConsecutive(r [][2]int) [][2]int {
	o := r[:0:0]
	for _, p := range r {
		if len(o) > 0 && o[len(o)-1] == p {
			continue
		}
		o = append(o, p)
	}
	if len(o) > 1 && o[0] == o[len(o)-1] {
		o = o[:len(o)-1]
	}
	return o
}

// arbitrary (usually invalid) rings: vertices drawn from a small pool so that repetitions, spikes and
// zig-zags are frequent; ring sizes 0..nmax
func genArbitrary(rng *rand.Rand, w, nmax int) lpoly {
	max := w * 4
	pool := make([][2]int, 2+rng.Intn(6))
	for i := range pool {
		pool[i] = [2]int{biasCoord(rng, rng.Intn(max+1), max, 0.5), biasCoord(rng, rng.Intn(max+1), max, 0.5)}
		if pool[i][0] == max {
			pool[i][0] = max - 1 - rng.Intn(2)
		}
		if pool[i][1] == max {
			pool[i][1] = max - 1 - rng.Intn(2)
		}
	}
	nr := 1 + rng.Intn(3)
	p := make(lpoly, nr)
	for r := range p {
		n := rng.Intn(nmax + 1)
		if rng.Intn(6) > 0 && n < 3 {
			n = 3 + rng.Intn(nmax-2)
		}
		ring := make([][2]int, n)
		for i := range ring {
			ring[i] = pool[rng.Intn(len(pool))]
			if rng.Intn(5) == 0 {
				ring[i] = [2]int{rng.Intn(max), rng.Intn(max)}
			}
		}
		p[r] = ring
	}
	return p
}

// rectilinear polygons with notches and a rectangular hole whose sides are aligned with a notch (column / row ties for the
// hole-to-shell matching and for point-in-ring tests)
func genRect(rng *rand.Rand, w int) lpoly {
	max := w * 4
	q := func(v int) int { // most coordinates on pixel borders or centres
		switch rng.Intn(4) {
		case 0:
			return v
		case 1:
			return v / 2 * 2
		default:
			return v / 4 * 4
		}
	}
	x0, y0 := q(rng.Intn(max/4)), q(rng.Intn(max/4))
	x1, y1 := q(max-rng.Intn(max/4)), q(max-rng.Intn(max/4))
	if x1-x0 < 16 || y1-y0 < 16 {
		x0, y0, x1, y1 = 0, 0, max, max
	}
	// notch in the top side
	a := q(x0 + 4 + rng.Intn((x1-x0)/2-3))
	b := q(a + 4 + rng.Intn(x1-a-7))
	if b >= x1 {
		b = x1 - 4
	}
	if a <= x0 {
		a = x0 + 4
	}
	if b <= a {
		b = a + 4
	}
	d := q(2 + rng.Intn((y1-y0)/2))
	if d < 2 {
		d = 2
	}
	shell := [][2]int{{x0, y0}, {x1, y0}, {x1, y1}, {b, y1}, {b, y1 - d}, {a, y1 - d}, {a, y1}, {x0, y1}}
	p := lpoly{shell}
	if rng.Intn(4) > 0 {
		// hole below the notch
		ha, hb := a, b
		if rng.Intn(3) == 0 {
			ha, hb = q(x0+2+rng.Intn(6)), q(x1-2-rng.Intn(6))
		}
		top := y1 - d - 2 - rng.Intn(4)
		bot := y0 + 2 + rng.Intn(4)
		if top-bot >= 2 && hb-ha >= 2 && ha > x0 && hb < x1 {
			hole := [][2]int{{ha, bot}, {ha, top}, {hb, top}, {hb, bot}}
			if rng.Intn(3) == 0 && top-bot >= 6 && hb-ha >= 4 {
				// C-shaped hole: a slot of one lattice unit cut in from the right, its two tips fall into one pixel
				mid := (bot+top)/2/4*4 + 1
				if mid <= bot+1 || mid+1 >= top {
					mid = (bot + top) / 2
				}
				hole = [][2]int{{ha, bot}, {ha, top}, {hb, top}, {hb, mid + 1}, {ha + 2, mid + 1}, {ha + 2, mid}, {hb, mid}, {hb, bot}}
				rot := rng.Intn(len(hole))
				hole = append(hole[rot:], hole[:rot]...)
			}
			if rng.Intn(2) == 0 && top-bot >= 12 && hb-ha >= 10 {
				// keyhole hole: the outline of the hole, a slit of one lattice unit at its left side, and an island inside it;
				// the two ends of the slit fall into one pixel, so the routed hole splits into the outline and the island
				m := (bot+top)/2/4*4 + 1
				g := 3 + rng.Intn(2)
				hole = [][2]int{{ha, m + 1}, {ha, top}, {hb, top}, {hb, bot}, {ha, bot}, {ha, m}, {ha + g, bot + g}, {hb - g, m}, {ha + g, top - g}}
				if rng.Intn(2) == 0 {
					rot := rng.Intn(len(hole))
					hole = append(hole[rot:], hole[:rot]...)
				}
				// the island may have a courtyard of its own: after the slit has closed it is a hole of the nested island, not of the shell
				cx, cy := (ha+g+hb-g+ha+g)/3, m
				if hb-ha >= 18 && top-bot >= 18 {
					p = append(p, hole)
					sd := (hb - ha - 2*g) * 2 / 5 // two fifths of the island's width: wide enough for coverage samples farther than a pixel from its boundary
					if sd < 3 {
						sd = 3
					}
					if sd > (top-bot-2*g)/4 {
						sd = (top - bot - 2*g) / 4
					}
					hole = [][2]int{{cx - sd/2, cy - sd/2}, {cx - sd/2, cy + (sd+1)/2}, {cx + (sd+1)/2, cy + (sd+1)/2}, {cx + (sd+1)/2, cy - sd/2}}
				}
			}
			p = append(p, hole)
		}
	}
	switch rng.Intn(4) { // rotate by multiples of 90 degrees
	case 1:
		for r := range p {
			for i := range p[r] {
				p[r][i] = [2]int{p[r][i][1], p[r][i][0]}
			}
		}
	case 2:
		for r := range p {
			for i := range p[r] {
				p[r][i] = [2]int{max - p[r][i][0], max - p[r][i][1]}
			}
		}
	case 3:
		for r := range p {
			for i := range p[r] {
				p[r][i] = [2]int{max - p[r][i][1], p[r][i][0]}
			}
		}
	}
	if rng.Intn(2) == 0 {
		p[0] = reverseRing(p[0])
	}
	return p
}

// thin rectilinear spiral corridor: the boundary winds several times around the same few coarse pixels, reaches the inner
// tip and returns along the other wall, so that the routed boundary at a coarse level repeats a *periodic* run of centres
// (A B C D A B C D ... tip ... D C B A D C B A): the inputs on which kmpDeduplicate's search patterns overlap themselves
func genSpiral(rng *rand.Rand, w int) lpoly {
	max := w * 4
	pitch := 2 + rng.Intn(3) // distance between successive turns of the centre line, lattice units
	wd := 1 + rng.Intn(pitch-1)
	if wd >= pitch {
		wd = pitch - 1
	}
	o := rng.Intn(3)
	size := max - o - rng.Intn(max/4+1)
	if size < 4*pitch {
		size = 4 * pitch
	}
	if o+size > max {
		size = max - o
	}
	// centre-line corners of a counter-clockwise inward spiral: E, N, W, S, E, ...
	dirs := [][2]int{{1, 0}, {0, 1}, {-1, 0}, {0, -1}}
	x, y := o, o
	corners := [][2]int{{x, y}}
	leg := size - wd
	maxLegs := 4 + rng.Intn(12)
	for k := 0; leg > wd && k < maxLegs; k++ {
		d := dirs[k%4]
		x, y = x+d[0]*leg, y+d[1]*leg
		corners = append(corners, [2]int{x, y})
		if k == 0 {
			continue // the first two legs have the same length
		}
		if k%2 == 0 || k == 1 {
			leg -= pitch
		}
	}
	if len(corners) < 3 {
		return lpoly{[][2]int{{o, o}, {o + size, o}, {o + size, o + wd}, {o, o + wd}}}
	}
	// left offset of the polyline by wd (every turn is a left turn)
	left := func(k int) [2]int { d := dirs[k%4]; return [2]int{-d[1], d[0]} }
	n := len(corners) - 1 // number of legs
	off := make([][2]int, len(corners))
	for i := range corners {
		var nx, ny int
		switch {
		case i == 0:
			l := left(0)
			nx, ny = l[0], l[1]
		case i == n:
			l := left(n - 1)
			nx, ny = l[0], l[1]
		default:
			a, b := left(i-1), left(i)
			nx, ny = a[0]+b[0], a[1]+b[1]
		}
		off[i] = [2]int{corners[i][0] + wd*nx, corners[i][1] + wd*ny}
	}
	r := append([][2]int{}, corners...)
	for i := len(off) - 1; i >= 0; i-- {
		r = append(r, off[i])
	}
	for i := range r {
		for c := 0; c < 2; c++ {
			if r[i][c] < 0 {
				r[i][c] = 0
			}
			if r[i][c] > max {
				r[i][c] = max
			}
		}
	}
	r = dedupConsecutive(r)
	if rng.Intn(2) == 0 { // mirror: clockwise spiral
		for i := range r {
			r[i] = [2]int{r[i][1], r[i][0]}
		}
	}
	return lpoly{r}
}

// genCourt: shells with few, long edges (triangle, diamond, rectangle with a cut corner, two lobes joined by a neck thinner than
// a pixel) and one small hole placed (a) anywhere inside - in particular inside the bounding box of one long sloped edge, below
// or above it - or (b) with every vertex a quarter pixel inside a different shell edge, so that the snapped hole touches its
// shell with all its vertices.  Random symmetry of the square applied.  Validity is decided by the specification, not here.
func genCourt(rng *rand.Rand, w int) lpoly { return genCourtSized(rng, w, false) }

// big: the hole is 2-4 pixels wide, so that a hole that is filled (or a shell that is lost) shows farther than a pixel from every boundary
func genCourtSized(rng *rand.Rand, w int, big bool) lpoly {
	max := w * 4
	m := max - 2
	var shell [][2]int
	switch rng.Intn(4) {
	case 0: // right triangle, hypotenuse descending
		shell = [][2]int{{1, 1}, {m, 1}, {1, m}}
	case 1: // diamond
		h := m / 2
		shell = [][2]int{{h, 1}, {m, h}, {h, m}, {1, h}}
	case 2: // rectangle with a cut corner
		c := m/3 + rng.Intn(m/3)
		shell = [][2]int{{1, 1}, {m, 1}, {m, c}, {c, m}, {1, m}}
	default: // two lobes and a neck of 1-2 lattice units
		a, b := max/3, 2*max/3
		y := max/2 - 1
		nw := 1 + rng.Intn(2)
		shell = [][2]int{{1, 1}, {a, 1}, {a, y}, {b, y}, {b, 2}, {m, 2}, {m, m}, {b, m}, {b, y + nw}, {a, y + nw}, {a, m - 1}, {1, m - 1}}
	}
	// a point strictly inside the shell by rejection on the even-odd rule
	inside := func(p [2]int) bool {
		in := false
		n := len(shell)
		for i := 0; i < n; i++ {
			a, b := shell[i], shell[(i+1)%n]
			if (a[1] > p[1]) != (b[1] > p[1]) {
				// x of the edge at height p[1], compared exactly
				lhs := (p[0] - a[0]) * (b[1] - a[1])
				rhs := (b[0] - a[0]) * (p[1] - a[1])
				if (b[1] > a[1] && lhs < rhs) || (b[1] < a[1] && lhs > rhs) {
					in = !in
				}
			}
		}
		return in
	}
	var hole [][2]int
	if rng.Intn(3) == 0 {
		// every vertex just inside another shell edge (the last lobe of the dumbbell if there is one)
		edges := rng.Perm(len(shell))
		if len(shell) == 12 {
			edges = []int{4, 5, 6, 7}
			rng.Shuffle(len(edges), func(i, j int) { edges[i], edges[j] = edges[j], edges[i] })
		}
		for _, e := range edges {
			a, b := shell[e], shell[(e+1)%len(shell)]
			t := 1 + rng.Intn(3)
			p := [2]int{a[0] + (b[0]-a[0])*t/4, a[1] + (b[1]-a[1])*t/4}
			for _, d := range [][2]int{{1, 0}, {-1, 0}, {0, 1}, {0, -1}, {1, 1}, {-1, -1}, {1, -1}, {-1, 1}} {
				q := [2]int{p[0] + d[0], p[1] + d[1]}
				if inside(q) {
					hole = append(hole, q)
					break
				}
			}
			if len(hole) == 3 {
				break
			}
		}
	} else {
		for tries := 0; tries < 50 && hole == nil; tries++ {
			c := [2]int{1 + rng.Intn(m), 1 + rng.Intn(m)}
			s := 2 + rng.Intn(max/4+1)
			if big {
				s = 9 + rng.Intn(max/8+1)
				if e := rng.Intn(len(shell)); rng.Intn(3) > 0 {
					// inside the bounding box of one sloped shell edge
					a, b := shell[e], shell[(e+1)%len(shell)]
					x0, x1, y0, y1 := a[0], b[0], a[1], b[1]
					if x0 > x1 {
						x0, x1 = x1, x0
					}
					if y0 > y1 {
						y0, y1 = y1, y0
					}
					if x1-x0 > s && y1-y0 > s {
						c = [2]int{x0 + rng.Intn(x1-x0-s), y0 + rng.Intn(y1-y0-s)}
					}
				}
			}
			h := [][2]int{c, {c[0], c[1] + s}, {c[0] + s, c[1] + s}, {c[0] + s, c[1]}}
			ok := true
			for _, q := range h {
				if !inside(q) {
					ok = false
				}
			}
			if ok {
				if rng.Intn(2) == 0 {
					h = h[:3]
				}
				hole = h
			}
		}
	}
	p := lpoly{shell}
	if len(hole) >= 3 {
		p = append(p, hole)
	}
	// one of the 8 symmetries of the square
	sym := rng.Intn(8)
	for r := range p {
		for i := range p[r] {
			x, y := p[r][i][0], p[r][i][1]
			if sym&1 != 0 {
				x = max - x
			}
			if sym&2 != 0 {
				y = max - y
			}
			if sym&4 != 0 {
				x, y = y, x
			}
			p[r][i] = [2]int{x, y}
		}
	}
	return p
}

// genDart: an arrowhead (triangle a, c, d whose edge a-c is replaced by a notch a -> b -> c) whose notch vertex b lies within a
// pixel of the long edge d-a, so that one wing is a sliver: on a fine level the long edge is routed through b's pixel and the
// ring can fall apart or turn inside out there while it stays a triangle on a coarser one (a level abandoned although a
// SHALLOWER one survives - the opposite of the usual collapse).  Random symmetry of the square applied.
func genDart(rng *rand.Rand, w int) lpoly {
	max := w * 4
	lo, hi := max/8, max-max/8
	span := hi - lo
	a := [2]int{lo + rng.Intn(span/3+1), hi - rng.Intn(span/3+1)}
	c := [2]int{hi - rng.Intn(span/3+1), hi - rng.Intn(span/2+1)}
	d := [2]int{lo + span/4 + rng.Intn(span/2+1), lo + rng.Intn(span/4+1)}
	// b: on d-a at 3/8 .. 5/8 of the way, moved 0-3 lattice units towards c
	t := 3 + rng.Intn(3)
	b := [2]int{d[0] + (a[0]-d[0])*t/8, d[1] + (a[1]-d[1])*t/8}
	off := rng.Intn(4)
	if c[0] > b[0] {
		b[0] += off
	}
	if rng.Intn(2) == 0 && c[1] > b[1] {
		b[1] += rng.Intn(3)
	}
	p := lpoly{{a, b, c, d}}
	if rng.Intn(4) == 0 { // a fifth vertex on the other long edge
		p[0] = [][2]int{a, b, c, {(c[0] + d[0]) / 2, (c[1]+d[1])/2 - rng.Intn(2)}, d}
	}
	sym := rng.Intn(8)
	for i := range p[0] {
		x, y := p[0][i][0], p[0][i][1]
		if sym&1 != 0 {
			x = max - x
		}
		if sym&2 != 0 {
			y = max - y
		}
		if sym&4 != 0 {
			x, y = y, x
		}
		p[0][i] = [2]int{x, y}
	}
	return p
}
