package main

import (
	"encoding/json"
	"flag"
	"fmt"
	"github.com/go-spatial/geom"
	"github.com/pdok/texel/tms20"
	"go/ast"
	"go/parser"
	"go/token"
	"math"
	"math/rand"
	"os"
	"strconv"
	"strings"

	"github.com/pdok/texel/morton"
	"github.com/pdok/texel/pointindex"
)

func init() {
	register("morton-consts", mortonConsts)
	register("morton-trace", mortonTrace)
	register("morton-replay", mortonReplay)
}

func bitsOf(v uint) []int {
	out := []int{}
	for i := 0; i < 64; i++ {
		if v&(1<<uint(i)) != 0 {
			out = append(out, i)
		}
	}
	return out
}

func fromBits(b []int) uint {
	var v uint
	for _, i := range b {
		v |= 1 << uint(i)
	}
	return v
}

// mortonConsts reads masks, powersOfTwo and the loop bounds of ToZ/FromZ out of morton.go and prints
// the TLA+ module MortonConsts. Exit 3 = source has a shape this extractor does not understand.
func mortonConsts(args []string) int {
	fs := flag.NewFlagSet("morton-consts", flag.ExitOnError)
	src := fs.String("src", "/repo/morton/morton.go", "")
	fs.Parse(args)
	fset := token.NewFileSet()
	f, err := parser.ParseFile(fset, *src, nil, 0)
	if err != nil {
		fmt.Fprintln(os.Stderr, err)
		return 3
	}
	parseUintLits := func(name string) ([]uint64, bool) {
		var out []uint64
		found := false
		ast.Inspect(f, func(n ast.Node) bool {
			vs, ok := n.(*ast.ValueSpec)
			if !ok || len(vs.Names) != 1 || vs.Names[0].Name != name || len(vs.Values) != 1 {
				return true
			}
			cl, ok := vs.Values[0].(*ast.CompositeLit)
			if !ok {
				return true
			}
			found = true
			for _, e := range cl.Elts {
				bl, ok := e.(*ast.BasicLit)
				if !ok {
					found = false
					return false
				}
				v, err := strconv.ParseUint(strings.ReplaceAll(bl.Value, "_", ""), 0, 64)
				if err != nil {
					found = false
					return false
				}
				out = append(out, v)
			}
			return false
		})
		return out, found
	}
	masks, ok1 := parseUintLits("masks")
	pows, ok2 := parseUintLits("powersOfTwo")
	if !ok1 || !ok2 || len(masks) == 0 || len(pows) == 0 {
		fmt.Fprintln(os.Stderr, "masks/powersOfTwo literals not found")
		return 3
	}
	// loops: returns (init, bound-inclusive) of the single for statement in the function
	loop := func(fn string) (init, bound int, ok bool) {
		for _, d := range f.Decls {
			fd, isFn := d.(*ast.FuncDecl)
			if !isFn || fd.Name.Name != fn || fd.Body == nil {
				continue
			}
			for _, st := range fd.Body.List {
				fr, isFor := st.(*ast.ForStmt)
				if !isFor {
					continue
				}
				as, isAs := fr.Init.(*ast.AssignStmt)
				if !isAs || len(as.Rhs) != 1 {
					return 0, 0, false
				}
				il, isLit := as.Rhs[0].(*ast.BasicLit)
				if !isLit {
					return 0, 0, false
				}
				init, _ = strconv.Atoi(il.Value)
				be, isBin := fr.Cond.(*ast.BinaryExpr)
				if !isBin {
					return 0, 0, false
				}
				bl, isLit := be.Y.(*ast.BasicLit)
				if !isLit {
					return 0, 0, false
				}
				b, _ := strconv.Atoi(bl.Value)
				switch be.Op {
				case token.GEQ, token.LEQ:
					bound = b
				case token.GTR:
					bound = b + 1
				case token.LSS:
					bound = b - 1
				default:
					return 0, 0, false
				}
				return init, bound, true
			}
		}
		return 0, 0, false
	}
	tzHi, tzLo, ok3 := loop("ToZ")
	fzLo, fzHi, ok4 := loop("FromZ")
	if !ok3 || !ok4 {
		fmt.Fprintln(os.Stderr, "loops of ToZ/FromZ not understood")
		return 3
	}
	var sb strings.Builder
	sb.WriteString("---------------------------- MODULE MortonConsts ----------------------------\n")
	sb.WriteString("(* GENERATED from " + *src + " by drv morton-consts *)\nEXTENDS Integers\nMasks == <<\n")
	for i, m := range masks {
		bits := bitsOf(uint(m))
		strs := make([]string, len(bits))
		for k, b := range bits {
			strs[k] = strconv.Itoa(b)
		}
		sb.WriteString("  {" + strings.Join(strs, ",") + "}")
		if i < len(masks)-1 {
			sb.WriteString(",")
		}
		sb.WriteString("\n")
	}
	sb.WriteString(">>\nPows == <<")
	for i, p := range pows {
		if i > 0 {
			sb.WriteString(", ")
		}
		sb.WriteString(strconv.FormatUint(p, 10))
	}
	sb.WriteString(">>\n")
	fmt.Fprintf(&sb, "ToZHi == %d\nToZLo == %d\nFromZLo == %d\nFromZHi == %d\n", tzHi, tzLo, fzLo, fzHi)
	sb.WriteString("=============================================================================\n")
	fmt.Print(sb.String())
	return 0
}

// mortonTrace records what the real code computes on random / structured / wide words.
func mortonTrace(args []string) int {
	fs := flag.NewFlagSet("morton-trace", flag.ExitOnError)
	seed := fs.Int64("seed", 1, "")
	n := fs.Int("n", 2000, "records per family")
	out := fs.String("out", "-", "")
	fs.Parse(args)
	rng := rand.New(rand.NewSource(*seed))
	w := newJSONL(*out)
	defer w.close()
	word := func(kind int) uint {
		switch kind % 6 {
		case 0:
			return uint(rng.Uint32())
		case 1: // sparse
			return uint(rng.Uint32()) & uint(rng.Uint32()) & uint(rng.Uint32())
		case 2: // dense
			return uint(rng.Uint32()) | uint(rng.Uint32()) | uint(rng.Uint32())
		case 3: // run of ones
			a, b := rng.Intn(32), rng.Intn(32)
			if a > b {
				a, b = b, a
			}
			return uint((uint64(1)<<uint(b+1) - 1) &^ (uint64(1)<<uint(a) - 1))
		case 4: // near powers of two
			return uint(uint64(1)<<uint(rng.Intn(33))) - uint(rng.Intn(2))
		default: // above 32 bits
			return uint(rng.Uint64() >> uint(rng.Intn(40)))
		}
	}
	key := func(x, y uint) {
		z, ok := morton.ToZ(x, y)
		fx, fy := morton.FromZ(z)
		w.put(map[string]any{"op": "key", "x": bitsOf(x), "y": bitsOf(y), "z": bitsOf(z), "ok": ok, "fx": bitsOf(fx), "fy": bitsOf(fy)})
	}
	// fixed structured part: extremes and every single bit incl. the not-encodable ones
	for _, v := range [][2]uint{{0, 0}, {0xFFFFFFFF, 0}, {0, 0xFFFFFFFF}, {0xFFFFFFFF, 0xFFFFFFFF}, {1 << 32, 0}, {0, 1 << 32}, {1<<64 - 1, 1<<64 - 1}, {0xAAAAAAAA, 0x55555555}} {
		key(v[0], v[1])
	}
	for i := 0; i < 64; i++ {
		key(1<<uint(i), 0)
		key(0, 1<<uint(i))
	}
	for i := 0; i < *n; i++ {
		key(word(i), word(rng.Intn(6)))
	}
	for i := 0; i < *n; i++ {
		x1, y1, x2, y2 := word(rng.Intn(5)), word(rng.Intn(5)), word(rng.Intn(5)), word(rng.Intn(5))
		z1, _ := morton.ToZ(x1, y1)
		z2, _ := morton.ToZ(x2, y2)
		z12, _ := morton.ToZ(x1|x2, y1|y2)
		w.put(map[string]any{"op": "lin", "z1": bitsOf(z1), "z2": bitsOf(z2), "z12": bitsOf(z12)})
	}
	for i := 0; i < *n; i++ {
		x, y := word(rng.Intn(5))&0xFFFFFFFF, word(rng.Intn(5))&0xFFFFFFFF // the parent rule is claimed for 32-bit addresses
		z, _ := morton.ToZ(x, y)
		zp, _ := morton.ToZ(x>>1, y>>1)
		w.put(map[string]any{"op": "parent", "z": bitsOf(z), "zp": bitsOf(zp)})
	}
	for i := 0; i < *n; i++ {
		x, y := word(rng.Intn(5))&0xFFFFFFFF, word(rng.Intn(5))&0xFFFFFFFF
		switch i % 4 {
		case 0: // children must stay encodable
			x, y = x&0x7FFFFFFF, y&0x7FFFFFFF
		case 1: // a parent in the right / upper half of a 32-level grid: its children do not fit in 32 bits
			x |= 1 << 31
		case 2:
			y |= 1 << 31
		}
		z, _ := morton.ToZ(x, y)
		k := make([][]int, 4)
		panicked := func() (p bool) {
			defer func() {
				if recover() != nil {
					p = true
				}
			}()
			kids := pointindex.VerifGetQuadrantZs(z)
			for q := 0; q < 4; q++ {
				k[q] = bitsOf(kids[q])
			}
			return false
		}()
		if panicked {
			for q := 0; q < 4; q++ {
				k[q] = []int{}
			}
		}
		w.put(map[string]any{"op": "kids", "x": bitsOf(x), "y": bitsOf(y), "z": bitsOf(z), "k": k, "panicked": panicked})
	}
	// MustToZ: what every production caller uses; not encodable addresses must be reported (panic), never aliased
	for i := 0; i < *n; i++ {
		x, y := word(i), word(rng.Intn(6))
		switch i % 5 {
		case 1:
			x = uint(1)<<uint(32+rng.Intn(32)) | uint(rng.Uint32())
			y &= 0xFFFFFFFF
		case 2:
			y = uint(1)<<uint(32+rng.Intn(32)) | uint(rng.Uint32())
			x &= 0xFFFFFFFF
		}
		var z morton.Z
		panicked := func() (p bool) {
			defer func() {
				if recover() != nil {
					p = true
				}
			}()
			z = morton.MustToZ(x, y)
			return false
		}()
		w.put(map[string]any{"op": "must", "x": bitsOf(x), "y": bitsOf(y), "z": bitsOf(z), "panicked": panicked})
	}
	// through the point index on grids deeper than 32 levels (WebMercatorQuad 21..24): a vertex whose deepest pixel address needs
	// 33 bits must be reported (error or panic), never stored under another pixel's key
	if wm, err := tms20.LoadEmbeddedTileMatrixSet("WebMercatorQuad"); err == nil {
		if dg, derr := loadDocGeom("WebMercatorQuad"); derr == nil {
			minX, _ := dg.MinX.Float64()
			minY, _ := dg.MinY.Float64()
			span, _ := dg.Span0.Float64()
			for i := 0; i < 40; i++ {
				id := 21 + rng.Intn(4)
				lvl := dg.level(id)
				// fractions of the span: below 2^32 / 2^lvl the address fits; keep a margin of a thousandth of that bound
				bound := math.Ldexp(1, 32-lvl)
				fx, fy := rng.Float64()*bound*0.998, rng.Float64()*bound*0.998
				wide := false
				switch i % 4 {
				case 1:
					fx, wide = bound*1.002+rng.Float64()*(0.99-bound*1.002), true
				case 2:
					fy, wide = bound*1.002+rng.Float64()*(0.99-bound*1.002), true
				case 3:
					fx, fy, wide = 0.5+rng.Float64()*0.4, 0.5+rng.Float64()*0.4, true
				}
				pt := geom.Point{minX + fx*span, minY + fy*span}
				reported := func() (rep bool) {
					defer func() {
						if recover() != nil {
							rep = true
						}
					}()
					ix, ierr := pointindex.FromTileMatrixSet(wm, id)
					if ierr != nil {
						return true
					}
					return ix.InsertPoint(pt) != nil
				}()
				w.put(map[string]any{"op": "deep", "level": lvl, "wide": wide, "reported": reported})
			}
		}
	}
	// ... and at exactly 32 levels (WebMercatorQuad 20) the largest address 2^32-1 still fits: a vertex in the last column / row of
	// the pixel grid must be accepted and get a key (the converse: nothing that fits may be reported)
	if wm, err := tms20.LoadEmbeddedTileMatrixSet("WebMercatorQuad"); err == nil {
		if dg, derr := loadDocGeom("WebMercatorQuad"); derr == nil && dg.level(20) == 32 {
			minX, _ := dg.MinX.Float64()
			minY, _ := dg.MinY.Float64()
			span, _ := dg.Span0.Float64()
			_, dev, _, serr := pointindex.DeviationStats(wm, 20)
			if serr == nil {
				grid := span - math.Abs(dev)                // what the 2^32 truncated pixels cover
				last := grid * (1 - 0.75/math.Ldexp(1, 32)) // three quarters into the last pixel
				for i := 0; i < 6; i++ {
					fx, fy := rng.Float64()*grid*0.99, rng.Float64()*grid*0.99
					switch i % 3 {
					case 0:
						fx = last
					case 1:
						fy = last
					default:
						fx, fy = last, last
					}
					pt := geom.Point{minX + fx, minY + fy}
					reported := func() (rep bool) {
						defer func() {
							if recover() != nil {
								rep = true
							}
						}()
						ix, ierr := pointindex.FromTileMatrixSet(wm, 20)
						if ierr != nil {
							return true
						}
						return ix.InsertPoint(pt) != nil
					}()
					w.put(map[string]any{"op": "deep", "level": 32, "wide": false, "reported": reported})
				}
			}
		}
	}
	for i := 0; i < *n; i++ {
		z := uint(rng.Uint64())
		if i%3 == 0 {
			z &= uint(rng.Uint64())
		}
		fx, fy := morton.FromZ(z)
		w.put(map[string]any{"op": "decode", "z": bitsOf(z), "fx": bitsOf(fx), "fy": bitsOf(fy)})
	}
	return 0
}

// mortonReplay runs TLC's vectors {x,y,z} (bit lists) through the real ToZ/FromZ and reports differences.
func mortonReplay(args []string) int {
	fs := flag.NewFlagSet("morton-replay", flag.ExitOnError)
	in := fs.String("in", "-", "")
	fs.Parse(args)
	type vec struct {
		X, Y, Z []int
	}
	n, bad := 0, 0
	out := newJSONL("-")
	defer out.close()
	readJSONLines(*in, func(line []byte) {
		var v vec
		if err := json.Unmarshal(line, &v); err != nil {
			fatal("bad vector %s: %v", line, err)
		}
		n++
		x, y, z := fromBits(v.X), fromBits(v.Y), fromBits(v.Z)
		gz, ok := morton.ToZ(x, y)
		fx, fy := morton.FromZ(z)
		if gz != z || !ok || fx != x || fy != y {
			bad++
			out.put(map[string]any{"mismatch": true, "x": x, "y": y, "spec_z": z, "code_z": gz, "ok": ok, "code_fx": fx, "code_fy": fy})
		}
	})
	out.put(map[string]any{"summary": true, "n": n, "bad": bad})
	return 0
}
