package main

import (
	"encoding/json"
	"flag"
	"math"
	"math/big"
	"math/rand"
	"slices"
	"sort"
	"strings"
	"time"

	"github.com/go-spatial/geom"
	"github.com/pdok/texel/pointindex"
	"github.com/pdok/texel/snap"
	"github.com/pdok/texel/tms20"
)

func init() {
	register("real-trace", realTrace)
	register("real-replay", realReplay)
}

// realReplay re-executes recorded calls on the built-in grids against the current code
func realReplay(args []string) int {
	fs := flag.NewFlagSet("real-replay", flag.ExitOnError)
	in := fs.String("in", "-", "")
	fs.Parse(args)
	out := newJSONL("-")
	defer out.close()
	rng := rand.New(rand.NewSource(1))
	readJSONLines(*in, func(line []byte) {
		var r realRec
		if err := json.Unmarshal(line, &r); err != nil {
			fatal("bad record: %v", err)
		}
		g := getRealGrid(r.Set)
		req := []int{}
		for _, e := range r.Lv {
			req = append(req, e.Z)
		}
		rec := runReal(g, r.Poly, r.IDs, req, snap.Config{KeepPointsAndLines: r.Keep, IgnoreOutsideGrid: r.Ig, ReverseWindingOrder: r.Rev}, r.Step, r.AX, r.AY, r.KMax, rng)
		rec.G, rec.V, rec.Tag, rec.Where = r.G, r.V, r.Tag, r.Where
		out.put(rec)
	})
	return 0
}

var acceptedSets = []string{"NetherlandsRDNewQuad", "WebMercatorQuad", "NZTM2000Quad", "WorldMercatorWGS84Quad", "EuropeanETRS89_LAEAQuad", "UPSArcticWGS84Quad", "UPSAntarcticWGS84Quad"}

type realGrid struct {
	name string
	tms  tms20.TileMatrixSet
	dg   *docGeom
	dev  map[int]float64 // deviation in units reported for a deepest id
}

var realGrids = map[string]*realGrid{}

func getRealGrid(name string) *realGrid {
	if g, ok := realGrids[name]; ok {
		return g
	}
	if name == "syn-odd" {
		// a round synthetic grid whose deepest pixel is an ODD number of 1e-10 units (2^-10 units = 9765625): half a pixel is
		// then not representable, the regime in which "a level's pixels do not depend on the deepest level requested" is delicate
		sg := newSynGrid(1, 2, -2, 3, "topLeft", 9) // span 4, ids 0..8 = levels 4..12
		dg := &docGeom{ID: name, MinX: big.NewRat(-2, 1), MinY: big.NewRat(3, 1), Span0: big.NewRat(4, 1), TileWidth: 1, Cell: map[int]*big.Rat{}, MaxID: 8}
		for z := 0; z <= 8; z++ {
			dg.Cell[z] = new(big.Rat).Quo(big.NewRat(4, 1), new(big.Rat).SetInt(new(big.Int).Lsh(big.NewInt(1), uint(z))))
		}
		g := &realGrid{name: name, tms: sg.tms, dg: dg, dev: map[int]float64{}}
		realGrids[name] = g
		return g
	}
	t, err := tms20.LoadEmbeddedTileMatrixSet(name)
	if err != nil {
		fatal("%v", err)
	}
	dg, err := loadDocGeom(name)
	if err != nil {
		fatal("%v", err)
	}
	g := &realGrid{name: name, tms: t, dg: dg, dev: map[int]float64{}}
	realGrids[name] = g
	return g
}

func (g *realGrid) deviation(deepest int) float64 {
	if d, ok := g.dev[deepest]; ok {
		return d
	}
	d := math.NaN()
	func() {
		defer func() { recover() }()
		_, du, _, err := pointindex.DeviationStats(g.tms, deepest)
		if err == nil {
			d = math.Abs(du)
		}
	}()
	g.dev[deepest] = d
	return d
}

type realPt struct {
	Z      int `json:"z"`
	Off    int `json:"off"`    // distance to the ideal pixel centre, larger axis, in 1e-9 units (rounded down)
	Ulp2   int `json:"ulp2"`   // two ulp of the returned ordinate in 1e-9 units (rounded up)
	DocInc int `json:"docinc"` // what the document's own rounded cell sizes can account for at this index (1e-9 units, rounded up)
	Moved  int `json:"moved"`  // Chebyshev distance to the nearest input vertex in 1/1000 pixel (rounded down)
}

type realRec struct {
	snapRec
	Set        string   `json:"set"`
	Levels     []int    `json:"levels"`      // quadtree level of each requested id
	DevNano    int      `json:"dev_nano"`    // deviation the tool reports for the deepest requested id, 1e-9 units, rounded up
	DevMilliPx []int    `json:"dev_millipx"` // the same in 1/1000 pixel of each requested id (rounded up)
	Pts        []realPt `json:"pts"`
	Where      string   `json:"where"`
	Step       float64  `json:"step"` // decimal step of the input coordinates and the window anchor in steps: enough to re-run the call
	AX         float64  `json:"ax"`
	AY         float64  `json:"ay"`
	KMax       int      `json:"kmax"`
	FarBand    bool     `json:"far_band"` // some vertex lies inside the extent but within the reported deviation of its right/top border
}

func ratOfFloat(f float64) *big.Rat { return new(big.Rat).SetFloat64(f) }

func ratFloorInt(r *big.Rat) int64 {
	q := new(big.Int).Div(r.Num(), r.Denom()) // Euclidean: floors for positive denominators
	return q.Int64()
}

func ratCeilNano(r *big.Rat) int {
	v := new(big.Rat).Mul(r, big.NewRat(1000000000, 1))
	f := ratFloorInt(v)
	if new(big.Rat).SetInt64(f).Cmp(v) < 0 {
		f++
	}
	if f > 2000000000 {
		f = 2000000000
	}
	return int(f)
}

// runReal executes one SnapPolygon call on a built-in grid and projects input and output (see RealTrace.tla)
func runReal(g *realGrid, lp lpoly, ids []int, reqIDs []int, c snap.Config, step, ax, ay float64, kmax int, rng *rand.Rand) realRec {
	toReal := func(p [2]int) geom.Point {
		x := (ax + float64(p[0]-kmax)) * step
		y := (ay + float64(p[1]-kmax)) * step
		return geom.Point{x, y}
	}
	{
		{
			rec := realRec{Set: g.name, Step: step, AX: ax, AY: ay, KMax: kmax}
			rec.Grid = g.name
			rec.Poly = lp
			rec.Keep, rec.Ig, rec.Rev, rec.Exact, rec.W = c.KeepPointsAndLines, c.IgnoreOutsideGrid, c.ReverseWindingOrder, true, 2*kmax
			rec.Res, rec.Lv, rec.Pts, rec.IDs, rec.Steps = []resRec{}, []lvRec{}, []realPt{}, ids, []stepRec{}
			gp := make(geom.Polygon, len(lp))
			for r, ring := range lp {
				gp[r] = make([][2]float64, len(ring))
				for j, p := range ring {
					gp[r][j] = toReal(p)
				}
				rec.Nv += len(ring)
				if rec.Poly[r] == nil {
					rec.Poly[r] = [][2]int{}
				}
			}
			maxX, _ := new(big.Rat).Add(g.dg.MinX, g.dg.Span0).Float64()
			maxY, _ := new(big.Rat).Add(g.dg.MinY, g.dg.Span0).Float64()
			devAll := g.deviation(slices.Max(reqIDs))
			for _, ring := range gp {
				for _, v := range ring {
					if v[0] < maxX && v[1] < maxY && (maxX-v[0] <= devAll*1.0000001 || maxY-v[1] <= devAll*1.0000001) {
						rec.FarBand = true
					}
				}
			}
			fin := g.dg.level(slices.Max(reqIDs))
			for _, z := range reqIDs {
				rec.Lv = append(rec.Lv, lvRec{Z: z, K: fin - g.dg.level(z)})
				rec.Levels = append(rec.Levels, g.dg.level(z))
			}
			dev := g.deviation(slices.Max(reqIDs))
			if math.IsNaN(dev) {
				rec.DevNano = -1
			} else {
				rec.DevNano = ratCeilNano(ratOfFloat(dev))
			}
			for _, z := range reqIDs {
				pz, _ := g.dg.pixel(z).Float64()
				rec.DevMilliPx = append(rec.DevMilliPx, int(math.Ceil(dev/pz*1000)))
			}
			var res map[tms20.TMID][]geom.Polygon
			t0 := time.Now()
			func() {
				defer func() {
					if r := recover(); r != nil {
						rec.Out = "panic: " + strings.SplitN(panicString(r), "\n", 2)[0]
					}
				}()
				res = snap.SnapPolygon(gp, g.tms, reqIDs, c)
				rec.Out = "ok"
			}()
			rec.Ms = int(time.Since(t0).Milliseconds())
			zs := []int{}
			for z := range res {
				zs = append(zs, z)
			}
			sort.Ints(zs)
			for _, z := range zs {
				pix := g.dg.pixel(z)
				pixf, _ := pix.Float64()
				// anchor index of this level: pixel of the window anchor
				anchX := ratFloorInt(new(big.Rat).Quo(new(big.Rat).Sub(ratOfFloat(ax*step), g.dg.MinX), pix))
				anchY := ratFloorInt(new(big.Rat).Quo(new(big.Rat).Sub(ratOfFloat(ay*step), g.dg.MinY), pix))
				// document inconsistency: cellSize(z)*2^z vs cellSize(0)
				inc := new(big.Rat).Sub(new(big.Rat).Mul(g.dg.Cell[z], new(big.Rat).SetInt(new(big.Int).Lsh(big.NewInt(1), uint(z)))), g.dg.Cell[0])
				inc.Abs(inc)
				inc.Quo(inc, new(big.Rat).SetInt(new(big.Int).Lsh(big.NewInt(16), uint(z)))) // per pixel of level z
				rr := resRec{Z: z, Polys: [][][][2]int{}, Fp: fpOf(res[z])}
				npts := 0
				for _, p := range res[z] {
					pp := [][][2]int{}
					for _, ring := range p {
						r := [][2]int{}
						for _, cxy := range ring {
							var idx [2]int64
							var offMax *big.Rat
							var incMax *big.Rat
							for a := 0; a < 2; a++ {
								min := g.dg.MinX
								if a == 1 {
									min = g.dg.MinY
								}
								rel := new(big.Rat).Sub(ratOfFloat(cxy[a]), min)
								k := ratFloorInt(new(big.Rat).Quo(rel, pix))
								idx[a] = k
								centre := new(big.Rat).Mul(pix, new(big.Rat).Add(new(big.Rat).SetInt64(k), big.NewRat(1, 2)))
								off := new(big.Rat).Sub(rel, centre)
								off.Abs(off)
								if offMax == nil || off.Cmp(offMax) > 0 {
									offMax = off
								}
								ii := new(big.Rat).Mul(inc, new(big.Rat).SetInt64(k+1))
								if incMax == nil || ii.Cmp(incMax) > 0 {
									incMax = ii
								}
							}
							r = append(r, [2]int{int(idx[0] - anchX), int(idx[1] - anchY)})
							if npts < 12 || rng.Intn(8) == 0 {
								npts++
								// nearest input vertex, Chebyshev, in 1/1000 pixel
								best := math.Inf(1)
								for _, iring := range gp {
									for _, iv := range iring {
										d := math.Max(math.Abs(iv[0]-cxy[0]), math.Abs(iv[1]-cxy[1]))
										if d < best {
											best = d
										}
									}
								}
								ulp := math.Max(math.Abs(cxy[0]), math.Abs(cxy[1])) * 2.220446049250313e-16 * 2
								offNano := ratFloorInt(new(big.Rat).Mul(offMax, big.NewRat(1000000000, 1)))
								if offNano > 2000000000 {
									offNano = 2000000000
								}
								rec.Pts = append(rec.Pts, realPt{Z: z, Off: int(offNano), Ulp2: ratCeilNano(ratOfFloat(ulp)), DocInc: ratCeilNano(incMax), Moved: int(best / pixf * 1000)})
							}
						}
						pp = append(pp, r)
					}
					rr.Polys = append(rr.Polys, pp)
				}
				rec.Res = append(rec.Res, rr)
			}
			return rec
		}
	}
}

func realTrace(args []string) int {
	fs := flag.NewFlagSet("real-trace", flag.ExitOnError)
	seed := fs.Int64("seed", 1, "")
	n := fs.Int("n", 100, "inputs")
	sets := fs.String("sets", strings.Join(acceptedSets, ","), "")
	gens := fs.String("gens", "star,hole,spiky", "star,hole,spiky,arbitrary")
	variants := fs.String("variants", "base", "base,again,keep,rev,subsets")
	maxZ := fs.Int("maxz", 20, "largest tile matrix id requested (ids with level > 32 panic: finding F9)")
	deep := fs.Bool("deep", false, "also request ids whose level exceeds 32")
	minZ := fs.Int("minz", 0, "smallest tile matrix id requested (deep ids + polygons of a few pixels)")
	where := fs.String("where", "interior,origin,nl", "placement mix: interior,origin,far,nl,f4")
	outp := fs.String("out", "-", "")
	g0 := fs.Int("g0", 0, "")
	fs.Parse(args)
	rng := rand.New(rand.NewSource(*seed))
	out := newJSONL(*outp)
	defer out.close()
	setList := strings.Split(*sets, ",")
	genList := strings.Split(*gens, ",")
	whereList := strings.Split(*where, ",")
	want := map[string]bool{}
	for _, v := range strings.Split(*variants, ",") {
		want[v] = true
	}
	for i := 0; i < *n; i++ {
		g := getRealGrid(setList[rng.Intn(len(setList))])
		// ids
		maxID := g.dg.MaxID
		if !*deep && maxID > *maxZ {
			maxID = *maxZ
		}
		nid := 1 + rng.Intn(3)
		idset := map[int]bool{}
		lowID := *minZ
		if lowID > maxID {
			lowID = maxID
		}
		if nid > maxID-lowID+1 {
			nid = maxID - lowID + 1
		}
		for len(idset) < nid {
			idset[lowID+rng.Intn(maxID-lowID+1)] = true
		}
		ids := []int{}
		for z := range idset {
			ids = append(ids, z)
		}
		sort.Ints(ids)
		coarse, fine := ids[0], ids[len(ids)-1]
		pixC, _ := g.dg.pixel(coarse).Float64()
		pixF, _ := g.dg.pixel(fine).Float64()
		// decimal step of the input coordinates: about 1/30 of the finest pixel, a power of ten
		step := math.Pow(10, math.Floor(math.Log10(pixF/30)))
		if step < 1e-7 {
			step = 1e-7
		}
		minX, _ := g.dg.MinX.Float64()
		minY, _ := g.dg.MinY.Float64()
		span, _ := g.dg.Span0.Float64()
		wh := whereList[rng.Intn(len(whereList))]
		radius := pixC * (1 + 6*rng.Float64())
		if rng.Intn(3) == 0 || *minZ > 0 {
			radius = pixF * (2 + 10*rng.Float64())
		}
		if radius/step > 15000 {
			radius = step * 15000
		}
		var cx, cy float64
		switch wh {
		case "origin":
			cx, cy = minX+radius*1.01+rng.Float64()*radius, minY+radius*1.01+rng.Float64()*radius
		case "far": // close to the right/top border (finding F10 lives in the last fraction of a pixel; stay 2 radii inside)
			cx, cy = minX+span-radius*(1.2+rng.Float64()), minY+span-radius*(1.2+rng.Float64())
		case "farband": // one vertex inside the extent but within the reported deviation of the right/top border (finding F10)
			cx, cy = minX+span-radius*1.05, minY+span*(0.2+0.6*rng.Float64())
		case "sw": // the south-west twentieth of the extent: pixel addresses stay below 2^32 up to level 36, so ids deeper than
			// quadtree level 32 work there (finding F9 lives in the rest of the extent)
			cx, cy = minX+span*(0.002+0.045*rng.Float64()), minY+span*(0.002+0.045*rng.Float64())
		case "centre": // on the centre lines of the extent (x = 0 / y = 0 of the Mercator sets): where the four root quadrants meet
			cx, cy = minX+span/2, minY+span/2
			switch rng.Intn(3) {
			case 0:
				cy = minY + span*(0.1+0.8*rng.Float64())
			case 1:
				cx = minX + span*(0.1+0.8*rng.Float64())
			}
		case "nl":
			if g.name == "NetherlandsRDNewQuad" {
				cx, cy = 20000+rng.Float64()*250000, 310000+rng.Float64()*300000
			} else {
				cx, cy = minX+span*(0.3+0.4*rng.Float64()), minY+span*(0.3+0.4*rng.Float64())
			}
		case "f4": // where finding F4 (fuzzy float round trip) showed: WebMercator around the Netherlands, RD south-west
			if g.name == "WebMercatorQuad" {
				cx, cy = 550000+rng.Float64()*1000, 6800000+rng.Float64()*1000
			} else {
				cx, cy = minX+span*(0.05+0.9*rng.Float64()), minY+span*(0.05+0.9*rng.Float64())
			}
		default:
			cx, cy = minX+span*(0.05+0.9*rng.Float64()), minY+span*(0.05+0.9*rng.Float64())
		}
		ax, ay := math.Round(cx/step), math.Round(cy/step) // anchor in steps
		gname := genList[rng.Intn(len(genList))]
		kmax := int(radius / step)
		if kmax < 4 {
			kmax = 4
		}
		var lp lpoly
		switch gname {
		case "star", "hole":
			w := 2 * kmax
			r := genStar(rng, float64(kmax), float64(kmax), float64(kmax)*0.35, float64(kmax)*0.98, 3+rng.Intn(10), w, 0)
			lp = lpoly{r}
			if gname == "hole" {
				lp = append(lp, genStar(rng, float64(kmax), float64(kmax), float64(kmax)*0.08, float64(kmax)*0.25, 3+rng.Intn(4), w, 0))
			}
		case "spiky": // star with many thin spikes: the routed ring revisits pixel centres
			w := 2 * kmax
			r := [][2]int{}
			nsp := 4 + rng.Intn(8)
			for s := 0; s < nsp; s++ {
				a := 2 * math.Pi * float64(s) / float64(nsp)
				a2 := a + 2*math.Pi/float64(nsp)*0.5
				r = append(r, [2]int{kmax + int(float64(kmax)*0.95*math.Cos(a)), kmax + int(float64(kmax)*0.95*math.Sin(a))})
				r = append(r, [2]int{kmax + int(float64(kmax)*0.1*math.Cos(a2)), kmax + int(float64(kmax)*0.1*math.Sin(a2))})
			}
			_ = w
			lp = lpoly{dedupConsecutive(r)}
		default:
			lp = genArbitrary(rng, kmax/2+1, 12)
		}
		if wh == "centre" && len(lp) > 0 && len(lp[0]) >= 2 {
			// an edge (two consecutive vertices) exactly on a centre line of the extent
			j := rng.Intn(len(lp[0]))
			onX := math.Abs(math.Round((minX+span/2)/step)-ax) <= float64(kmax) // is the window on the vertical centre line?
			onY := math.Abs(math.Round((minY+span/2)/step)-ay) <= float64(kmax)
			if onX && (!onY || rng.Intn(2) == 0) {
				c := int(math.Round((minX+span/2)/step)-ax) + kmax
				lp[0][j][0], lp[0][(j+1)%len(lp[0])][0] = c, c
			} else if onY {
				c := int(math.Round((minY+span/2)/step)-ay) + kmax
				lp[0][j][1], lp[0][(j+1)%len(lp[0])][1] = c, c
			}
		}
		if wh == "farband" {
			// put the right-most vertex at half the reported deviation from the right border (if that is representable on the step grid)
			dev := g.deviation(fine)
			if !math.IsNaN(dev) && dev/2 >= step {
				target := math.Floor((minX + span - dev/2) / step)
				bi, bj, bx := 0, 0, -1
				for r := range lp {
					for j := range lp[r] {
						if lp[r][j][0] > bx {
							bi, bj, bx = r, j, lp[r][j][0]
						}
					}
				}
				lp[bi][bj][0] = int(target-ax) + kmax
			}
		}
		cfg := snap.Config{KeepPointsAndLines: rng.Intn(2) == 0, IgnoreOutsideGrid: false, ReverseWindingOrder: rng.Intn(3) == 0}
		ordMode := rng.Intn(6) // the ids are requested in ascending order in two groups out of three, otherwise reversed / shuffled
		emit := func(v string, reqIDs []int, c snap.Config) {
			reqIDs = append([]int{}, reqIDs...)
			if len(reqIDs) > 1 {
				switch ordMode {
				case 0:
					slices.Reverse(reqIDs)
				case 1:
					rng.Shuffle(len(reqIDs), func(a, b int) { reqIDs[a], reqIDs[b] = reqIDs[b], reqIDs[a] })
				}
			}
			rec := runReal(g, lp, ids, reqIDs, c, step, ax, ay, kmax, rng)
			rec.G, rec.V, rec.Tag, rec.Where = *g0+i, v, gname, wh
			out.put(rec)
		}
		emit("base", ids, cfg)
		if want["again"] {
			emit("again", ids, cfg)
		}
		if want["keep"] {
			c := cfg
			c.KeepPointsAndLines = !c.KeepPointsAndLines
			emit("keep", ids, c)
		}
		if want["rev"] {
			c := cfg
			c.ReverseWindingOrder = !c.ReverseWindingOrder
			emit("rev", ids, c)
		}
		if want["ringrev"] {
			for t := 0; t < min(len(lp), 2); t++ {
				p2 := make(lpoly, len(lp))
				any := false
				for r := range lp {
					if (t == 0 && r == 0) || (t == 1 && rng.Intn(2) == 0) {
						p2[r] = reverseRing(lp[r])
						any = true
					} else {
						p2[r] = lp[r]
					}
				}
				if any {
					rec := runReal(g, p2, ids, ids, cfg, step, ax, ay, kmax, rng)
					rec.G, rec.V, rec.Tag, rec.Where = *g0+i, "ringrev", gname, wh
					out.put(rec)
				}
			}
		}
		if want["subsets"] && len(ids) > 1 {
			for _, s := range subsetsOf(ids) {
				emit("subset", s, cfg)
			}
		}
	}
	return 0
}
