package main

import (
	"encoding/json"
	"flag"
	"math"
	"math/rand"

	"github.com/pdok/texel/intgeom"
	"github.com/pdok/texel/snap"
)

func init() {
	register("chain-replay", chainReplay)
	register("kmp-check", kmpCheck)
	register("kmp-run", kmpRun)
	register("assemble-replay", assembleReplay)
	register("split-replay", splitReplay)
}

func runKmp(ring [][2]float64) (out [][2]float64, outcome string) {
	defer func() {
		if r := recover(); r != nil {
			outcome = "panic: " + panicString(r)
		}
	}()
	in := make([][2]float64, len(ring))
	copy(in, ring)
	return snap.VerifKmpDeduplicate(in), "ok"
}

// chainReplay: label sequences from Chains.tla -> (a) kmpDeduplicate records, (b) SnapPolygon records of a polygon
// whose vertices are pixel centres in convex position (so its routed chain is the sequence itself)
func chainReplay(args []string) int {
	fs := flag.NewFlagSet("chain-replay", flag.ExitOnError)
	in := fs.String("in", "-", "")
	kmpOut := fs.String("kmp", "", "ndjson of kmpDeduplicate records")
	snapOut := fs.String("snap", "", "ndjson of SnapPolygon records (SnapTrace format)")
	seed := fs.Int64("seed", 1, "")
	every := fs.Int("every", 1, "realise every n-th sequence as a polygon")
	fs.Parse(args)
	rng := rand.New(rand.NewSource(*seed))
	ko := newJSONL(*kmpOut)
	defer ko.close()
	so := newJSONL(*snapOut)
	defer so.close()
	const w = 44
	n := 0
	readJSONLines(*in, func(line []byte) {
		var v struct {
			Seq []int `json:"seq"`
		}
		if err := json.Unmarshal(line, &v); err != nil {
			fatal("bad vector: %v", err)
		}
		n++
		// (a) the spike removal on abstract points (label j -> point (j, 2j))
		ring := make([][2]float64, len(v.Seq))
		for i, l := range v.Seq {
			ring[i] = [2]float64{float64(l), float64(2 * l)}
		}
		out, oc := runKmp(ring)
		labels := []int{}
		for _, p := range out {
			labels = append(labels, int(p[0]))
		}
		ko.put(map[string]any{"seq": v.Seq, "out": labels, "outcome": oc})
		// (b) as a polygon
		if (n+int(*seed))%*every != 0 {
			return
		}
		nl := 0
		for _, l := range v.Seq {
			if l > nl {
				nl = l
			}
		}
		rot := rng.Float64() * 2 * math.Pi
		pos := make([][2]int, nl+1)
		for j := 1; j <= nl; j++ {
			a := rot + 2*math.Pi*float64(j)/float64(nl)
			px := int(math.Round(22 + 19*math.Cos(a)))
			py := int(math.Round(22 + 19*math.Sin(a)))
			pos[j] = [2]int{px*4 + 2, py*4 + 2}
		}
		poly := lpoly{make([][2]int, len(v.Seq))}
		for i, l := range v.Seq {
			poly[0][i] = pos[l]
		}
		var sg *snapGrid
		for {
			sg = pickSnapGrid(rng, w)
			if (1 << uint(sg.finest())) >= w+1 {
				break
			}
		}
		for _, keep := range []bool{false, true} {
			cfg := snap.Config{KeepPointsAndLines: keep, ReverseWindingOrder: rng.Intn(4) == 0}
			rec := runSnap(sg, poly, sg.ids, cfg, w)
			rec.G, rec.V, rec.Tag = n, map[bool]string{false: "base", true: "keep"}[keep], "labels"
			so.put(rec)
		}
	})
	return 0
}

// kmpCheck: rings (lists of points) on stdin, one JSON object {"rings": [[[x,y],...],...]} per line; reports for each
// whether kmpDeduplicate's result contains an adjacency that its argument does not contain (the key of finding F5)
func kmpCheck(args []string) int {
	out := newJSONL("-")
	defer out.close()
	readJSONLines("-", func(line []byte) {
		var v struct {
			Rings [][][2]float64 `json:"rings"`
		}
		if err := json.Unmarshal(line, &v); err != nil {
			fatal("bad input: %v", err)
		}
		invented := false
		var witness any
		for _, ring := range v.Rings {
			if len(ring) < 3 {
				continue
			}
			res, oc := runKmp(ring)
			if oc != "ok" {
				continue
			}
			type edge [2][2]float64
			adj := map[edge]bool{}
			for i := range ring {
				a, b := ring[i], ring[(i+1)%len(ring)]
				adj[edge{a, b}] = true
				adj[edge{b, a}] = true
			}
			for i := range res {
				a, b := res[i], res[(i+1)%len(res)]
				if a != b && !adj[edge{a, b}] {
					invented = true
					witness = map[string]any{"from": a, "to": b, "argument": ring, "result": res}
				}
			}
		}
		out.put(map[string]any{"invented": invented, "witness": witness})
	})
	return 0
}

// kmpRun: label sequences -> results of the real kmpDeduplicate / kmpSearchAll (Kmp.tla vectors and experiments).
// input lines: {"ring":[labels]} or {"corpus":[labels],"find":[labels]}; label n is the point (n+0.5, 0.5)
func kmpRun(args []string) int {
	out := newJSONL("-")
	defer out.close()
	pt := func(ls []int) [][2]float64 {
		r := make([][2]float64, len(ls))
		for i, l := range ls {
			r[i] = [2]float64{float64(l) + 0.5, 0.5}
		}
		return r
	}
	lab := func(ps [][2]float64) []int {
		r := make([]int, len(ps))
		for i, p := range ps {
			r[i] = int(p[0] - 0.5)
		}
		return r
	}
	readJSONLines("-", func(line []byte) {
		var v struct {
			Ring   []int `json:"ring"`
			Corpus []int `json:"corpus"`
			Find   []int `json:"find"`
		}
		if err := json.Unmarshal(line, &v); err != nil {
			fatal("bad input: %v", err)
		}
		if v.Find != nil {
			res, oc := func() (r []int, oc string) {
				defer func() {
					if e := recover(); e != nil {
						r, oc = []int{}, "panic: "+panicString(e)
					}
				}()
				return snap.VerifKmpSearchAll(pt(v.Corpus), pt(v.Find)), "ok"
			}()
			if res == nil {
				res = []int{}
			}
			out.put(map[string]any{"e": "Search", "corpus": v.Corpus, "find": v.Find, "got": res, "out": oc})
			return
		}
		res, oc := runKmp(pt(v.Ring))
		out.put(map[string]any{"e": "Dedupe", "ring": v.Ring, "got": lab(res), "out": oc})
	})
	return 0
}

// assembleReplay: TLC's loop configurations (Assemble.tla) through the real dedupeInnersOuters + matchInnersToPolygons,
// exactly as addPointsAndSnap chains them. input lines {"os":[ring...],"is":[ring...]} (lattice points), output adds "got".
func assembleReplay(args []string) int {
	out := newJSONL("-")
	defer out.close()
	toF := func(rs [][][2]int) [][][2]float64 {
		o := make([][][2]float64, len(rs))
		for i, r := range rs {
			o[i] = make([][2]float64, len(r))
			for j, p := range r {
				o[i][j] = [2]float64{float64(p[0]) + 0.5, float64(p[1]) + 0.5}
			}
		}
		return o
	}
	readJSONLines("-", func(line []byte) {
		var v struct {
			Os [][][2]int `json:"os"`
			Is [][][2]int `json:"is"`
		}
		if err := json.Unmarshal(line, &v); err != nil {
			fatal("bad input: %v", err)
		}
		got := [][][][2]int{}
		oc := func() (oc string) {
			defer func() {
				if e := recover(); e != nil {
					oc = "panic: " + panicString(e)
				}
			}()
			no, ni := snap.VerifDedupeInnersOuters(toF(v.Os), toF(v.Is))
			polys := make([][][][2]float64, len(no))
			for i := range no {
				polys[i] = [][][2]float64{no[i]}
			}
			res := snap.VerifMatchInnersToPolygons(polys, ni, true)
			for _, p := range res {
				pp := [][][2]int{}
				for _, r := range p {
					rr := [][2]int{}
					for _, c := range r {
						rr = append(rr, [2]int{int(c[0] - 0.5), int(c[1] - 0.5)})
					}
					pp = append(pp, rr)
				}
				got = append(got, pp)
			}
			return "ok"
		}()
		if v.Os == nil {
			v.Os = [][][2]int{}
		}
		if v.Is == nil {
			v.Is = [][][2]int{}
		}
		out.put(map[string]any{"os": v.Os, "is": v.Is, "got": got, "out": oc})
	})
	return 0
}

// splitReplay: TLC's rings and hit-multiple sets (SplitRing.tla) through the real splitRing, as outer and as inner ring.
// input lines {"ring":[labels],"hm":[labels]}; label n is the n-th corner of the convex pentagon of SplitRing.tla.
func splitReplay(args []string) int {
	out := newJSONL("-")
	defer out.close()
	corner := [][2]float64{{0, 0}, {4, 0}, {6, 3}, {3, 6}, {0, 4}}
	lab := func(rs [][][2]float64) [][]int {
		o := [][]int{}
		for _, r := range rs {
			l := []int{}
			for _, p := range r {
				k := -1
				for i, c := range corner {
					if c == p {
						k = i
					}
				}
				l = append(l, k)
			}
			o = append(o, l)
		}
		return o
	}
	readJSONLines("-", func(line []byte) {
		var v struct {
			Ring []int `json:"ring"`
			Hm   []int `json:"hm"`
		}
		if err := json.Unmarshal(line, &v); err != nil {
			fatal("bad input: %v", err)
		}
		if v.Hm == nil {
			v.Hm = []int{}
		}
		for _, isOuter := range []bool{true, false} {
			ring := make([][2]float64, len(v.Ring))
			for i, l := range v.Ring {
				ring[i] = corner[l]
			}
			const ringIdx = 1
			hm := map[intgeom.Point][]int{}
			for _, l := range v.Hm {
				hm[intgeom.FromGeomPoint(corner[l])] = []int{0, ringIdx}
			}
			var o, in, p [][][2]float64
			oc := func() (oc string) {
				defer func() {
					if e := recover(); e != nil {
						oc = "panic: " + panicString(e)
					}
				}()
				o, in, p = snap.VerifSplitRing(ring, isOuter, hm, ringIdx)
				return "ok"
			}()
			out.put(map[string]any{"ring": v.Ring, "hm": v.Hm, "outer": isOuter, "out": oc, "o": lab(o), "i": lab(in), "p": lab(p)})
		}
	})
	return 0
}
