package main

import (
	"encoding/json"
	"errors"
	"flag"
	"math/big"
	"sort"
	"strings"

	"github.com/go-spatial/geom"
	"github.com/pdok/texel/pointindex"
	"github.com/pdok/texel/snap"
	"github.com/pdok/texel/tms20"
)

func init() { register("border-replay", borderReplay) }

type borderVec struct {
	P      [2]int `json:"p"`
	K      int    `json:"k"`
	Ig     bool   `json:"ig"`
	Shape  string `json:"shape"` // tri | shell | hole: where the (possibly outside) vertex sits
	Expect string `json:"expect"`
	Inside bool   `json:"inside"`
}

// a grid on which border vectors are replayed: integer (1e-10 unit) geometry
type borderGrid struct {
	Name  string
	tms   tms20.TileMatrixSet
	Z     int   // tile matrix requested
	MinX  int64 // extent in 1e-10 units
	MinY  int64
	Span  int64
	U     int64 // lattice unit (quarter of the deepest pixel) in 1e-10 units
	Round bool  // extent divides evenly into deepest pixels (then inside => snapped is asserted too)
}

func classifyPanic(r any) string {
	if err, ok := r.(error); ok {
		var og pointindex.OutsideGridError
		if errors.As(err, &og) {
			return "panic-outside-grid"
		}
	}
	return "panic-other: " + panicString(r)
}

func borderGrids(tier string) []borderGrid {
	var gs []borderGrid
	syn := func(name string, tw uint, m int, x0, y0 float64, corner string, z int) {
		g := newSynGridFull(tw, m, x0, y0, corner, z+1, strings.Contains(name, "swapped"), strings.Contains(name, "bbox"))
		pixInt, ok := ratInt(new(big.Rat).SetFloat64(g.pix(g.levelOf(z))))
		if !ok || pixInt%4 != 0 {
			fatal("synthetic grid %s not exact", name)
		}
		spanInt, _ := ratInt(new(big.Rat).SetFloat64(g.pix(0)))
		gs = append(gs, borderGrid{Name: name, tms: g.tms, Z: z, MinX: texelInt(x0), MinY: texelInt(y0), Span: spanInt, U: pixInt / 4, Round: true})
	}
	syn("syn-origin0", 1, 4, 0, 0, "bottomLeft", 0)
	syn("syn-neg-topleft", 2, 6, -1024.5, 2048.25, "topLeft", 1)
	syn("syn-pos", 1, 3, 100, 100, "bottomLeft", 2)
	// northing/easting documents with origin x != y, both corner conventions (the extent in x,y order must come out the same)
	syn("syn-swapped-bottomleft", 1, 4, 1000, 2000.5, "bottomLeft", 1)
	syn("syn-swapped-topleft", 2, 5, -300.25, 64, "topLeft", 0)
	syn("syn-declared-bbox", 1, 4, 10, 266, "bottomLeft", 1) // declares a bounding box larger than its extent
	real := func(id string, z int) {
		dg, err := loadDocGeom(id)
		if err != nil {
			fatal("%v", err)
		}
		t, err := tms20.LoadEmbeddedTileMatrixSet(id)
		if err != nil {
			fatal("%v", err)
		}
		minX, ok1 := ratInt(dg.MinX)
		minY, ok2 := ratInt(dg.MinY)
		span, ok3 := ratInt(dg.Span0)
		if !ok1 || !ok2 || !ok3 {
			// documents with more than 10 decimals: fall back to the nearest representable integers
			minX, minY, span = texelInt(ratFloat(dg.MinX)), texelInt(ratFloat(dg.MinY)), texelInt(ratFloat(dg.Span0))
		}
		l := dg.level(z)
		pix := span >> uint(l)
		round := span%(int64(1)<<uint(l)) == 0
		gs = append(gs, borderGrid{Name: id, tms: t, Z: z, MinX: minX, MinY: minY, Span: span, U: pix / 4, Round: round && pix%4 == 0})
	}
	real("NetherlandsRDNewQuad", 0)
	real("NetherlandsRDNewQuad", 5)
	real("WebMercatorQuad", 3)
	if tier == "thorough" {
		syn("syn-tw256", 256, 12, 0, 0, "topLeft", 0)
		syn("syn-deep", 1, 4, -8, -8, "bottomLeft", 6)
		real("NetherlandsRDNewQuad", 14)
		real("WebMercatorQuad", 12)
		real("NZTM2000Quad", 4)
	}
	return gs
}

func borderReplay(args []string) int {
	fs := flag.NewFlagSet("border-replay", flag.ExitOnError)
	in := fs.String("in", "-", "")
	n := fs.Int("N", 8, "pixels of the model grid")
	s := fs.Int("S", 4, "")
	tier := fs.String("tier", "quick", "")
	fs.Parse(args)
	grids := borderGrids(*tier)
	out := newJSONL("-")
	defer out.close()
	total, bad, skipped := 0, 0, 0
	half := *n * *s / 2
	readJSONLines(*in, func(line []byte) {
		var v borderVec
		if err := json.Unmarshal(line, &v); err != nil {
			fatal("bad vector: %v", err)
		}
		for gi := range grids {
			g := &grids[gi]
			// model lattice coordinate -> 1e-10 units, measured from the nearest border
			conv := func(c int, min int64) int64 {
				if c < half {
					return min + int64(c)*g.U
				}
				return min + g.Span + int64(c-*n**s)*g.U
			}
			tri := [3][2]int{{half - 1, half - 1}, {half + 2, half - 1}, {half, half + 2}} // = Inner of MC_Border
			tri[v.K] = v.P
			ring := make([][2]float64, 3)
			okAll := true
			for i, q := range tri {
				fx, ok1 := floatFor(conv(q[0], g.MinX))
				fy, ok2 := floatFor(conv(q[1], g.MinY))
				if !ok1 || !ok2 {
					okAll = false
				}
				ring[i] = [2]float64{fx, fy}
			}
			if !okAll {
				skipped++
				continue
			}
			total++
			// second ring: a small in-grid triangle near the middle; as hole after the offending shell, or as shell before the offending hole
			small := make([][2]float64, 3)
			for i, q := range [3][2]int{{half, half}, {half + 1, half}, {half, half + 1}} {
				fx, _ := floatFor(conv(q[0], g.MinX))
				fy, _ := floatFor(conv(q[1], g.MinY))
				small[i] = [2]float64{fx, fy}
			}
			polygon := geom.Polygon{ring}
			switch v.Shape {
			case "shell":
				polygon = geom.Polygon{ring, small}
			case "hole":
				polygon = geom.Polygon{small, ring}
			}
			// (1) SnapPolygon with keep-points-and-lines on, so an accepted polygon always returns something
			snapWith := func(ids []tms20.TMID) (oc string) {
				defer func() {
					if r := recover(); r != nil {
						oc = classifyPanic(r)
					}
				}()
				res := snap.SnapPolygon(polygon, g.tms, ids, snap.Config{KeepPointsAndLines: true, IgnoreOutsideGrid: v.Ig})
				if len(res) == 0 {
					return "empty"
				}
				return "snapped"
			}
			outcome := snapWith([]tms20.TMID{g.Z})
			// (1b) the same with coarser tile matrices requested as well, deepest first or last: the extent does not depend on the request
			outcomeMulti := outcome
			if g.Z >= 1 {
				ids := []tms20.TMID{g.Z, g.Z - 1}
				if total%2 == 0 {
					ids = []tms20.TMID{g.Z - 1, g.Z}
				}
				if g.Z >= 2 && total%3 == 0 {
					ids = append(ids, 0)
				}
				outcomeMulti = snapWith(ids)
			}
			// (2) InsertPoint on a fresh index
			ins := func() (oc string) {
				defer func() {
					if r := recover(); r != nil {
						oc = "panic-other: " + panicString(r)
					}
				}()
				ix, err := pointindex.FromTileMatrixSet(g.tms, g.Z)
				if err != nil {
					return "index-error: " + err.Error()
				}
				err = ix.InsertPoint(ring[v.K])
				if err == nil {
					return "inserted"
				}
				var og pointindex.OutsideGridError
				if errors.As(err, &og) {
					return "outside-grid-error"
				}
				return "other-error: " + err.Error()
			}()
			wantIns := "outside-grid-error"
			if v.Inside {
				wantIns = "inserted"
			}
			okOutcome := outcome == v.Expect && outcomeMulti == v.Expect
			okIns := ins == wantIns
			if v.Inside && !g.Round {
				// only-if direction: on a grid that does not divide evenly the tool may refuse a vertex inside the
				// extent close to the far border (that is C06's concern, finding F10), but it must never accept outside.
				okOutcome = (outcome == v.Expect || outcome == "panic-outside-grid" || outcome == "empty") &&
					(outcomeMulti == v.Expect || outcomeMulti == "panic-outside-grid" || outcomeMulti == "empty")
				okIns = ins == wantIns || ins == "outside-grid-error"
			}
			if !okOutcome || !okIns {
				bad++
				if bad <= 2000 {
					out.put(map[string]any{"mismatch": true, "vec": v, "grid": g.Name, "z": g.Z, "ring": ring, "polygon": polygon, "snap_outcome": outcome, "snap_outcome_multi": outcomeMulti, "insert_outcome": ins, "want_insert": wantIns})
				}
			}
		}
	})
	names := []string{}
	for _, g := range grids {
		names = append(names, g.Name+"/z"+itoa(g.Z))
	}
	out.put(map[string]any{"summary": true, "n": total, "bad": bad, "skipped_inexact": skipped, "grids": names})
	return 0
}

func itoa(i int) string { return big.NewInt(int64(i)).String() }

func init() { register("border-fine", borderFine) }

// borderFine: "by any amount" below the quarter-pixel lattice of MC_Border, on the built-in grids whose extent does not divide evenly
// into pixels (there the pixel grid and the extent differ by the reported deviation, and a pixel size that is rounded instead of
// truncated makes the grid reach PAST the right / top border): one vertex of a triangle 2e-9 units .. 1/16 pixel outside each of
// the four borders, the others well inside; both values of the ignore flag; judged by BorderFineTrace.tla.
func borderFine(args []string) int {
	fs := flag.NewFlagSet("border-fine", flag.ExitOnError)
	outp := fs.String("out", "-", "")
	fs.Parse(args)
	out := newJSONL(*outp)
	defer out.close()
	cases := map[string][]int{
		"WebMercatorQuad":         {0, 1, 3, 6, 8, 13, 16, 17, 19},
		"EuropeanETRS89_LAEAQuad": {4, 7, 10, 12, 14},
		"NZTM2000Quad":            {4, 6, 11, 14, 17},
		"NetherlandsRDNewQuad":    {0, 5, 14},
		"UPSArcticWGS84Quad":      {2, 9},
	}
	names := make([]string, 0, len(cases))
	for n := range cases {
		names = append(names, n)
	}
	sort.Strings(names)
	for _, id := range names {
		dg, err := loadDocGeom(id)
		if err != nil {
			fatal("%v", err)
		}
		t, err := tms20.LoadEmbeddedTileMatrixSet(id)
		if err != nil {
			fatal("%v", err)
		}
		// the extent as the code sees it: the bounding box of matrix 0 converted to 1e-10 integers
		bl, tr, err := t.MatrixBoundingBox(0)
		if err != nil {
			fatal("%v", err)
		}
		minX, minY, maxX, maxY := texelInt(bl[0]), texelInt(bl[1]), texelInt(tr[0]), texelInt(tr[1])
		span := maxX - minX
		for _, z := range cases[id] {
			pix := span >> uint(dg.level(z))
			for _, side := range []string{"left", "bottom", "right", "top"} {
				for _, d := range []int64{20, pix / 10000, pix / 100, pix / 16} {
					if d < 20 {
						continue
					}
					midX, midY := minX+span/2+3*pix, minY+span/2+3*pix
					var vx, vy int64
					switch side {
					case "left":
						vx, vy = minX-d, midY
					case "bottom":
						vx, vy = midX, minY-d
					case "right":
						vx, vy = maxX+d, midY // the right and top borders themselves are outside already
					default:
						vx, vy = midX, maxY+d
					}
					pts := [][2]int64{{vx, vy}, {midX - 40*pix, midY - 30*pix}, {midX + 35*pix, midY - 25*pix}}
					ring := make([][2]float64, 3)
					for i, q := range pts {
						// at 2e7 m a float64 step is 37 units of 1e-10: take the nearest float and measure where it really is
						ring[i] = [2]float64{float64(q[0]) / 1e10, float64(q[1]) / 1e10}
					}
					ax, ay := texelInt(ring[0][0]), texelInt(ring[0][1])
					switch side {
					case "left":
						d = minX - ax
					case "bottom":
						d = minY - ay
					case "right":
						d = ax - maxX
					default:
						d = ay - maxY
					}
					if d < 2 || ax < minX-span || ay < minY-span {
						continue // not clearly outside after rounding to a float
					}
					for _, ig := range []bool{false, true} {
						oc := func() (oc string) {
							defer func() {
								if r := recover(); r != nil {
									oc = classifyPanic(r)
								}
							}()
							res := snap.SnapPolygon(geom.Polygon{ring}, t, []tms20.TMID{z}, snap.Config{KeepPointsAndLines: true, IgnoreOutsideGrid: ig})
							if len(res) == 0 {
								return "empty"
							}
							return "snapped"
						}()
						out.put(map[string]any{"set": id, "z": z, "side": side, "d": d, "pix": pix, "ig": ig, "outcome": oc})
					}
				}
			}
		}
	}
	return 0
}
