package main

import (
	"encoding/json"
	"flag"
	"math"
	"math/big"
	"math/rand"
	"strconv"

	"github.com/go-spatial/geom"
	"github.com/pdok/texel/pointindex"
)

func init() {
	register("route-replay", routeReplay)
	register("route-trace", routeTrace)
	register("route-real", routeReal)
}

// A TLC vector of MC_Route: lattice points a, b (S units per pixel), hot pixels, specified route (pixels).
type routeVec struct {
	A     [2]int   `json:"a"`
	B     [2]int   `json:"b"`
	M     string   `json:"m"`
	Hot   [][2]int `json:"hot"`
	Route [][2]int `json:"route"`
}

// placement of the window in a synthetic grid
type placement struct {
	TW     uint    `json:"tw"`
	M      int     `json:"m"`  // span 2^m
	X0     float64 `json:"x0"` // lower-left corner
	Y0     float64 `json:"y0"`
	Corner string  `json:"corner"` // corner of origin convention
	D      int     `json:"d"`      // deepest level of the index
	L      int     `json:"l"`      // level at which the vector is replayed
	OX     int     `json:"ox"`     // window offset in level-L pixels
	OY     int     `json:"oy"`
}

func placementsFor(w int, tier string, rng *rand.Rand) []placement {
	var ps []placement
	add := func(tw uint, m int, x0, y0 float64, corner string, d, l int, where string) {
		n := 1 << uint(l)
		room := n - (w + 1)
		if room < 0 {
			return
		}
		var ox, oy int
		switch where {
		case "origin":
			ox, oy = 0, 0
		case "far":
			ox, oy = room, room
		case "centre": // window straddles the level-1 centre
			ox, oy = n/2-(w+1)/2, n/2-(w+1)/2
		case "centre-":
			ox, oy = n/2-1, n/2-w
		case "mixed":
			ox, oy = room, 0
		default:
			ox, oy = rng.Intn(room+1), rng.Intn(room+1)
		}
		if ox < 0 || oy < 0 || ox > room || oy > room {
			return
		}
		ps = append(ps, placement{TW: tw, M: m, X0: x0, Y0: y0, Corner: corner, D: d, L: l, OX: ox, OY: oy})
	}
	// deepest level of a grid is at least log2(tw)+4
	add(1, 4, 0, 0, "bottomLeft", 4, 4, "centre")
	add(1, 2, -3, 5, "topLeft", 5, 5, "origin")
	add(2, 6, 1024.5, -2048.25, "topLeft", 6, 6, "far")
	add(1, 3, 100, 100, "bottomLeft", 6, 4, "centre-") // coarser level than the deepest
	if tier == "thorough" {
		add(4, 8, -64, -64, "topLeft", 8, 8, "random")
		add(16, 10, 12345.5, 678.25, "bottomLeft", 9, 9, "centre")
		add(1, 5, 0, 0, "topLeft", 7, 5, "far")
		add(1, 4, 0, 0, "bottomLeft", 6, 3, "origin")
		add(1, 4, -8, -8, "bottomLeft", 4, 2, "origin") // 4x4 pixels: only for w <= 3
		add(256, 12, 0, 0, "topLeft", 12, 12, "centre-")
		add(2, 7, 50, -50, "topLeft", 8, 8, "mixed")
		add(1, 4, 0, 0, "bottomLeft", 5, 5, "random")
	}
	return ps
}

type routeRunner struct {
	S     int
	rng   *rand.Rand
	grids map[placement]*synGrid
}

func (rr *routeRunner) grid(p placement) *synGrid {
	key := p
	key.L, key.OX, key.OY = 0, 0, 0
	if g, ok := rr.grids[key]; ok {
		return g
	}
	if rr.grids == nil {
		rr.grids = map[placement]*synGrid{}
	}
	g := newSynGrid(p.TW, p.M, p.X0, p.Y0, p.Corner, p.D-log2u(p.TW)-4+1)
	rr.grids[key] = g
	return g
}

// run replays one vector at one placement and returns the centres (in level-L pixel indices relative to
// the window, doubled+1 would be the lattice; we return what the code produced converted back to pixels)
// together with ok=false when a returned coordinate is not a pixel centre of the placement at all.
func (rr *routeRunner) run(v *routeVec, p placement) (got [][2]int, exact bool, panicMsg string) {
	got = [][2]int{}
	defer func() {
		if r := recover(); r != nil {
			panicMsg = panicString(r)
		}
	}()
	g := rr.grid(p)
	ix, err := pointindex.FromTileMatrixSet(g.tms, g.zOf(p.D))
	if err != nil {
		fatal("FromTileMatrixSet: %v", err)
	}
	pixL := g.pix(p.L)
	u := pixL / float64(rr.S)
	k := 1 << uint(p.D-p.L)
	for _, h := range v.Hot {
		dx := (p.OX+h[0])*k + rr.rng.Intn(k)
		dy := (p.OY+h[1])*k + rr.rng.Intn(k)
		if err := ix.InsertCoord(dx, dy); err != nil {
			fatal("placement puts hot pixel outside grid: %v", err)
		}
	}
	toReal := func(q [2]int) geom.Point {
		x := p.X0 + float64(p.OX*rr.S+q[0])*u
		y := p.Y0 + float64(p.OY*rr.S+q[1])*u
		if !exactUnit(x) || !exactUnit(y) {
			fatal("placement %+v yields inexact coordinate %v %v", p, x, y)
		}
		return geom.Point{x, y}
	}
	line := geom.Line{toReal(v.A), toReal(v.B)}
	res := ix.SnapClosestPoints(line, map[pointindex.Level]any{uint(p.L): struct{}{}}, 0)
	exact = true
	got = [][2]int{}
	for _, c := range res[uint(p.L)] {
		fx := (c[0]-p.X0)/pixL - float64(p.OX) - 0.5
		fy := (c[1]-p.Y0)/pixL - float64(p.OY) - 0.5
		ix_, iy_ := int(fx), int(fy)
		if float64(ix_) != fx || float64(iy_) != fy {
			exact = false
		}
		got = append(got, [2]int{ix_, iy_})
	}
	return got, exact, ""
}

func eqPix(a, b [][2]int) bool {
	if len(a) != len(b) {
		return false
	}
	for i := range a {
		if a[i] != b[i] {
			return false
		}
	}
	return true
}

// routeReplay: TLC vectors on stdin -> real SnapClosestPoints at several placements; prints mismatches.
func routeReplay(args []string) int {
	fs := flag.NewFlagSet("route-replay", flag.ExitOnError)
	in := fs.String("in", "-", "")
	s := fs.Int("S", 4, "lattice units per pixel")
	w := fs.Int("W", 2, "window pixels")
	tier := fs.String("tier", "quick", "")
	seed := fs.Int64("seed", 1, "")
	maxBad := fs.Int("maxbad", 200000, "")
	fs.Parse(args)
	rng := rand.New(rand.NewSource(*seed))
	rr := &routeRunner{S: *s, rng: rng}
	ps := placementsFor(*w, *tier, rng)
	out := newJSONL("-")
	defer out.close()
	n, bad, ties := 0, 0, 0
	readJSONLines(*in, func(line []byte) {
		var v routeVec
		if err := json.Unmarshal(line, &v); err != nil {
			fatal("bad vector: %v", err)
		}
		if v.A[0]%*s == 0 || v.A[1]%*s == 0 || v.B[0]%*s == 0 || v.B[1]%*s == 0 {
			ties++
		}
		for pi, p := range ps {
			n++
			got, exact, pm := rr.run(&v, p)
			if pm != "" || !exact || !eqPix(got, v.Route) {
				bad++
				if bad <= *maxBad {
					out.put(map[string]any{"mismatch": true, "vec": v, "placement": p, "pi": pi, "got": got, "exact": exact, "panic": pm})
				}
			}
		}
	})
	out.put(map[string]any{"summary": true, "n": n, "bad": bad, "placements": ps, "endpoint_on_border": ties})
	return 0
}

// routeTrace: random segments and hot sets in a larger window, recorded from the real code, for
// validation by RouteTrace.tla (the route is computed by TLC, not here).
func routeTrace(args []string) int {
	fs := flag.NewFlagSet("route-trace", flag.ExitOnError)
	seed := fs.Int64("seed", 1, "")
	n := fs.Int("n", 2000, "")
	s := fs.Int("S", 4, "")
	w := fs.Int("W", 6, "window pixels")
	outp := fs.String("out", "-", "")
	fs.Parse(args)
	rng := rand.New(rand.NewSource(*seed))
	rr := &routeRunner{S: *s, rng: rng}
	out := newJSONL(*outp)
	defer out.close()
	ps := placementsFor(*w, "thorough", rng)
	for i := 0; i < *n; i++ {
		var v routeVec
		v.Hot = [][2]int{}
		lat := func() int {
			// bias to pixel borders and centres
			switch rng.Intn(4) {
			case 0:
				return rng.Intn(*w+1) * *s
			case 1:
				return rng.Intn(*w)**s + *s/2
			default:
				return rng.Intn(*w**s + 1)
			}
		}
		v.A = [2]int{lat(), lat()}
		v.B = [2]int{lat(), lat()}
		if rng.Intn(3) == 0 { // short edges
			v.B = [2]int{clampInt(v.A[0]+rng.Intn(2**s+1)-*s, 0, *w**s), clampInt(v.A[1]+rng.Intn(2**s+1)-*s, 0, *w**s)}
		}
		dens := rng.Intn(4)
		seen := map[[2]int]bool{}
		addHot := func(h [2]int) {
			if !seen[h] {
				seen[h] = true
				v.Hot = append(v.Hot, h)
			}
		}
		if rng.Intn(5) > 0 {
			addHot([2]int{v.A[0] / *s, v.A[1] / *s})
			addHot([2]int{v.B[0] / *s, v.B[1] / *s})
		}
		for x := 0; x <= *w; x++ {
			for y := 0; y <= *w; y++ {
				if rng.Intn(4) <= dens {
					addHot([2]int{x, y})
				}
			}
		}
		p := ps[rng.Intn(len(ps))]
		got, exact, pm := rr.run(&v, p)
		out.put(map[string]any{"a": v.A, "b": v.B, "hot": v.Hot, "got": got, "exact": exact, "panic": pm, "pi": p})
	}
	return 0
}

func clampInt(v, lo, hi int) int {
	if v < lo {
		return lo
	}
	if v > hi {
		return hi
	}
	return v
}

// routeReal: on the built-in (real) grids an edge must meet the pixels its own end points were inserted into, whatever
// float noise the coordinates carry: insert only a and b, route a-b, and report how many occupied pixels exist at the
// deepest level and how many the route returned (judged by RouteRealTrace.tla). End points are biased to sit exactly on
// pixel borders as decimals (where float -> 1e-10 integer conversion is most delicate).
func routeReal(args []string) int {
	fs := flag.NewFlagSet("route-real", flag.ExitOnError)
	seed := fs.Int64("seed", 1, "")
	n := fs.Int("n", 2000, "")
	outp := fs.String("out", "-", "")
	fs.Parse(args)
	rng := rand.New(rand.NewSource(*seed))
	out := newJSONL(*outp)
	defer out.close()
	sets := []string{"NetherlandsRDNewQuad", "WebMercatorQuad", "NZTM2000Quad", "EuropeanETRS89_LAEAQuad", "UPSArcticWGS84Quad"}
	for i := 0; i < *n; i++ {
		g := getRealGrid(sets[rng.Intn(len(sets))])
		maxz := g.dg.MaxID
		if maxz > 20 {
			maxz = 20
		}
		z := rng.Intn(maxz + 1)
		level := g.dg.level(z)
		pix := g.dg.pixel(z)
		span, _ := g.dg.Span0.Float64()
		npix := int64(1) << uint(level)
		coord := func(min *big.Rat) float64 {
			k := rng.Int63n(npix-4) + 2
			r := new(big.Rat).Add(min, new(big.Rat).Mul(pix, big.NewRat(k, 1)))
			switch rng.Intn(4) {
			case 0: // exactly on the border (as a decimal of at most 10 places, then the nearest float)
			case 1: // just inside the pixel to the right / above
				r.Add(r, new(big.Rat).Mul(pix, big.NewRat(1, 1000)))
			case 2:
				r.Sub(r, new(big.Rat).Mul(pix, big.NewRat(1, 1000)))
			default:
				r.Add(r, new(big.Rat).Mul(pix, big.NewRat(rng.Int63n(1000), 1000)))
			}
			f, _ := strconv.ParseFloat(r.FloatString(10), 64)
			return f
		}
		_ = span
		a := geom.Point{coord(g.dg.MinX), coord(g.dg.MinY)}
		if rng.Intn(6) == 0 {
			// on a non-round grid the pixel grid is narrower than the extent by the reported deviation, so its middle border lies
			// half the deviation left of / below the middle of the extent: an end point inside that sliver (in the right / upper
			// half of the grid, in the left / lower half of the extent), and on the middle line itself
			dev := g.deviation(z)
			if !math.IsNaN(dev) {
				midX, _ := new(big.Rat).Add(g.dg.MinX, new(big.Rat).Quo(g.dg.Span0, big.NewRat(2, 1))).Float64()
				midY, _ := new(big.Rat).Add(g.dg.MinY, new(big.Rat).Quo(g.dg.Span0, big.NewRat(2, 1))).Float64()
				f := []float64{0, 0.25, 0.45, 0.55}[rng.Intn(4)]
				if rng.Intn(2) == 0 {
					a[0] = midX - f*dev
				} else {
					a[1] = midY - f*dev
				}
			}
		}
		var b geom.Point
		if rng.Intn(2) == 0 { // a short edge of a few pixels
			pf, _ := pix.Float64()
			b = geom.Point{a[0] + (rng.Float64()*8-4)*pf, a[1] + (rng.Float64()*8-4)*pf}
		} else {
			b = geom.Point{coord(g.dg.MinX), coord(g.dg.MinY)}
		}
		rec := map[string]any{"set": g.name, "z": z, "a": []string{strconv.FormatFloat(a[0], 'g', -1, 64), strconv.FormatFloat(a[1], 'g', -1, 64)},
			"b": []string{strconv.FormatFloat(b[0], 'g', -1, 64), strconv.FormatFloat(b[1], 'g', -1, 64)}, "status": "ok", "hot": 0, "routed": 0, "first_last": true}
		func() {
			defer func() {
				if r := recover(); r != nil {
					rec["status"] = "panic: " + panicString(r)
				}
			}()
			ix, err := pointindex.FromTileMatrixSet(g.tms, z)
			if err != nil {
				rec["status"] = "error: " + err.Error()
				return
			}
			if err := ix.InsertPoint(a); err != nil {
				rec["status"] = "outside"
				return
			}
			if err := ix.InsertPoint(b); err != nil {
				rec["status"] = "outside"
				return
			}
			cents := ix.VerifQuadrantCentroids(uint(level))
			rec["hot"] = len(cents)
			res := ix.SnapClosestPoints(geom.Line{a, b}, map[pointindex.Level]any{uint(level): struct{}{}}, 0)
			rt := res[uint(level)]
			rec["routed"] = len(rt)
			// the first / last routed centre must be the centre of a pixel an end point was inserted into
			isCentre := func(c [2]float64) bool {
				for _, q := range cents {
					if q.ToGeomPoint() == c {
						return true
					}
				}
				return false
			}
			for _, c := range rt {
				if !isCentre(c) {
					rec["first_last"] = false
				}
			}
		}()
		out.put(rec)
	}
	return 0
}
