package main

import (
	"flag"
	"math/rand"
	"reflect"
	"runtime"
	"sort"
	"strings"
	"sync"
	"time"

	"github.com/go-spatial/geom"
	"github.com/pdok/texel/processing"
	"github.com/pdok/texel/tms20"
)

func init() { register("pipe-trace", pipeTrace) }

// ---- event log: one mutex, sequence numbers, never wall-clock ----
type evLog struct {
	mu  sync.Mutex
	evs []map[string]any
}

func (l *evLog) add(e map[string]any) {
	l.mu.Lock()
	l.evs = append(l.evs, e)
	l.mu.Unlock()
}

type pFeature struct {
	cols []interface{}
	g    geom.Geometry
}

func (f *pFeature) Columns() []interface{}  { return f.cols }
func (f *pFeature) Geometry() geom.Geometry { return f.g }

type featSpec struct {
	Kind string  `json:"kind"` // poly | multi | other
	Cnt  [][]int `json:"cnt"`  // per part: per abstract target (1-based index -> position t-1): polygons returned
}

type pipeRun struct {
	n        int
	targets  []int       // abstract ids 1..5 in use (sorted)
	tmid     map[int]int // abstract target -> tile matrix id
	abs      map[int]int // tile matrix id -> abstract target
	feats    []featSpec
	src      []*pFeature
	log      *evLog
	rng      *rand.Rand
	delay    string
	holdDone bool
}

func jitter(rng *rand.Rand, mu *sync.Mutex, max time.Duration) {
	if max <= 0 {
		return
	}
	mu.Lock()
	d := time.Duration(rng.Int63n(int64(max)))
	mu.Unlock()
	time.Sleep(d)
}

// tagged polygon: first vertex encodes (feature, part), used by the polygon function to know what it is given
func srcPolygon(i, p int) geom.Polygon {
	return geom.Polygon{{{float64(i), float64(p)}, {float64(i) + 1, float64(p)}, {float64(i), float64(p) + 1}}}
}

// result polygon j for (feature, part, target)
func resPolygon(i, p, t, j int) geom.Polygon {
	return geom.Polygon{{{float64(i), float64(p)}, {float64(t), float64(j)}, {-1, -1}}}
}

func decodeRes(pg geom.Polygon) []int {
	if len(pg) != 1 || len(pg[0]) != 3 || pg[0][2] != [2]float64{-1, -1} {
		return []int{-1, -1, -1, -1}
	}
	return []int{int(pg[0][0][0]), int(pg[0][0][1]), int(pg[0][1][0]), int(pg[0][1][1])}
}

type fakeSource struct{ r *pipeRun }

func (s *fakeSource) ReadFeatures(ch chan<- processing.Feature) {
	var mu sync.Mutex
	for i, f := range s.r.src {
		if s.r.delay == "reader" || s.r.delay == "all" {
			jitter(s.r.rng, &mu, 300*time.Microsecond)
		}
		s.r.log.add(map[string]any{"e": "SrcSend", "i": i + 1})
		ch <- f
	}
	// logged BEFORE the close: once the channel is closed the rest of the pipeline may run to completion (and log TgtDone)
	// before this goroutine is scheduled again, and the trace must not show effects of the close ahead of the close
	s.r.log.add(map[string]any{"e": "SrcClose"})
	close(ch)
}

type fakeTarget struct {
	r       *pipeRun
	t       int // abstract id
	release chan struct{}
}

func (ft *fakeTarget) WriteFeatures(ch <-chan processing.Feature) {
	var mu sync.Mutex
	for f := range ch {
		ev := map[string]any{"e": "TgtRecv", "t": ft.t}
		cols := f.Columns()
		i := -1
		if len(cols) > 0 {
			if v, ok := cols[0].(int64); ok {
				i = int(v)
			}
		}
		ev["i"] = i
		attrsOK := i >= 1 && i <= len(ft.r.src) && reflect.DeepEqual(cols, ft.r.src[i-1].cols)
		ev["attrs_ok"] = attrsOK
		tags := [][]int{}
		cls := "O"
		orig := false
		switch g := f.Geometry().(type) {
		case geom.Polygon:
			cls = "P"
			tags = append(tags, decodeRes(g))
		case geom.MultiPolygon:
			cls = "MP"
			for _, pg := range g {
				tags = append(tags, decodeRes(pg))
			}
		default:
			orig = i >= 1 && i <= len(ft.r.src) && reflect.DeepEqual(f.Geometry(), ft.r.src[i-1].g)
		}
		// tags carry the tile matrix id the polygon function was asked for; project to the abstract target
		for _, tg := range tags {
			if a, ok := ft.r.abs[tg[2]]; ok {
				tg[2] = a
			} else {
				tg[2] = -1
			}
		}
		ev["cls"], ev["tags"], ev["orig"] = cls, tags, orig
		if tm, ok := f.(processing.FeatureForTileMatrix); ok {
			ev["tmid_ok"] = tm.TileMatrixID() == ft.r.tmid[ft.t]
		} else {
			ev["tmid_ok"] = true
		}
		ft.r.log.add(ev)
		if ft.r.delay == "target" || ft.r.delay == "all" || (ft.r.delay == "target1" && ft.t == ft.r.targets[0]) {
			jitter(ft.r.rng, &mu, 300*time.Microsecond)
		}
	}
	if ft.release != nil {
		<-ft.release // hold the writer "busy with its last page" until the harness has looked for a premature return
	}
	ft.r.log.add(map[string]any{"e": "TgtDone", "t": ft.t})
}

func (r *pipeRun) polyFunc(p geom.Polygon, tmIDs []tms20.TMID) map[tms20.TMID][]geom.Polygon {
	i, part := int(p[0][0][0]), int(p[0][0][1])
	ids := append([]int{}, tmIDs...)
	sort.Ints(ids)
	want := []int{}
	for _, t := range r.targets {
		want = append(want, r.tmid[t])
	}
	sort.Ints(want)
	r.log.add(map[string]any{"e": "Snap", "i": i, "p": part, "ids_ok": reflect.DeepEqual(ids, want)})
	if r.delay == "snapper" || r.delay == "all" {
		time.Sleep(time.Duration(50+i%7*20) * time.Microsecond)
	}
	out := map[tms20.TMID][]geom.Polygon{}
	for _, t := range r.targets {
		k := r.feats[i-1].Cnt[part-1][t-1]
		if k == 0 {
			continue
		}
		ps := make([]geom.Polygon, k)
		for j := 1; j <= k; j++ {
			ps[j-1] = resPolygon(i, part, r.tmid[t], j)
		}
		out[r.tmid[t]] = ps
	}
	return out
}

func otherGeom(rng *rand.Rand, i int) geom.Geometry {
	switch rng.Intn(4) {
	case 0:
		return geom.Point{float64(i), 1}
	case 1:
		return geom.LineString{{float64(i), 0}, {1, 2}}
	case 2:
		return geom.MultiPoint{{float64(i), 0}, {3, 4}}
	default:
		return geom.MultiLineString{{{float64(i), 0}, {1, 1}}}
	}
}

func pipeTrace(args []string) int {
	fs := flag.NewFlagSet("pipe-trace", flag.ExitOnError)
	seed := fs.Int64("seed", 1, "")
	runs := fs.Int("runs", 50, "")
	maxN := fs.Int("maxn", 40, "")
	outp := fs.String("out", "-", "")
	hold := fs.Bool("hold", true, "hold one target's completion to look for a premature return")
	fs.Parse(args)
	rng := rand.New(rand.NewSource(*seed))
	out := newJSONL(*outp)
	defer out.close()
	for ri := 0; ri < *runs; ri++ {
		r := &pipeRun{log: &evLog{}, rng: rand.New(rand.NewSource(rng.Int63()))}
		switch rng.Intn(6) {
		case 0:
			r.n = 0
		case 1:
			r.n = 1 + rng.Intn(3)
		default:
			r.n = rng.Intn(*maxN + 1)
		}
		nt := 1 + rng.Intn(5)
		perm := rng.Perm(5)
		for _, a := range perm[:nt] {
			r.targets = append(r.targets, a+1)
		}
		sort.Ints(r.targets)
		r.tmid, r.abs = map[int]int{}, map[int]int{}
		base := rng.Intn(10)
		for _, t := range r.targets {
			r.tmid[t] = base + t // tile matrix ids keep the order of the abstract ids
			r.abs[base+t] = t
		}
		r.delay = []string{"none", "none", "reader", "snapper", "target", "target1", "all"}[rng.Intn(7)]
		procs := []int{1, 2, 4, 16}[rng.Intn(4)]
		prev := runtime.GOMAXPROCS(procs)
		for i := 1; i <= r.n; i++ {
			fs_ := featSpec{}
			cnt := func() []int {
				c := make([]int, 5)
				for _, t := range r.targets {
					switch rng.Intn(6) {
					case 0, 1:
						c[t-1] = 0
					case 2, 3, 4:
						c[t-1] = 1
					default:
						c[t-1] = 2 + rng.Intn(2)
					}
				}
				return c
			}
			var g geom.Geometry
			switch rng.Intn(5) {
			case 0:
				fs_.Kind = "other"
				fs_.Cnt = [][]int{make([]int, 5)}
				g = otherGeom(rng, i)
			case 1:
				fs_.Kind = "multi"
				np := 1 + rng.Intn(3)
				mp := geom.MultiPolygon{}
				for p := 1; p <= np; p++ {
					fs_.Cnt = append(fs_.Cnt, cnt())
					mp = append(mp, srcPolygon(i, p))
				}
				g = mp
			default:
				fs_.Kind = "poly"
				fs_.Cnt = [][]int{cnt()}
				g = srcPolygon(i, 1)
			}
			r.feats = append(r.feats, fs_)
			var col2 interface{} = "name-" + itoa(i)
			if rng.Intn(5) == 0 {
				col2 = nil
			}
			r.src = append(r.src, &pFeature{cols: []interface{}{int64(i), col2, float64(i) / 4}, g: g})
		}
		feats := r.feats
		if feats == nil {
			feats = []featSpec{}
		}
		out.put(map[string]any{"e": "Reset", "n": r.n, "targets": r.targets, "feat": feats, "delay": r.delay, "procs": procs, "run": ri})
		out.flush() // a panic in one of the pipeline's own goroutines kills this process: the run that did it must be identifiable
		targets := map[tms20.TMID]processing.Target{}
		var held *fakeTarget
		for _, t := range r.targets {
			ft := &fakeTarget{r: r, t: t}
			if *hold && held == nil && rng.Intn(2) == 0 {
				ft.release = make(chan struct{})
				held = ft
			}
			targets[r.tmid[t]] = ft
		}
		time.Sleep(2 * time.Millisecond)
		before := runtime.NumGoroutine()
		done := make(chan string, 1)
		go func() {
			defer func() {
				if p := recover(); p != nil {
					done <- "panic: " + panicString(p)
				}
			}()
			processing.ProcessFeatures(&fakeSource{r}, targets, r.polyFunc)
			r.log.add(map[string]any{"e": "Return"})
			done <- "ok"
		}()
		status := ""
		if held != nil {
			// give a premature return every chance to show up, then let the writer finish
			select {
			case status = <-done:
			case <-time.After(30 * time.Millisecond):
			}
			close(held.release)
		}
		if status == "" {
			select {
			case status = <-done:
			case <-time.After(20 * time.Second):
				status = "hang"
			}
		}
		leaked := 0
		if status == "ok" {
			// goroutines of a finished run may need a moment to exit on a loaded machine; a real leak persists, so waiting is safe
			for k := 0; k < 600; k++ {
				leaked = runtime.NumGoroutine() - before
				if leaked <= 0 {
					leaked = 0
					break
				}
				time.Sleep(5 * time.Millisecond)
			}
		}
		runtime.GOMAXPROCS(prev)
		r.log.mu.Lock()
		for _, e := range r.log.evs {
			if e["e"] == "Return" {
				e["leaked"] = leaked
			}
			out.put(e)
		}
		r.log.mu.Unlock()
		if status == "hang" {
			buf := make([]byte, 1<<16)
			nb := runtime.Stack(buf, true)
			blocked := strings.Count(string(buf[:nb]), "github.com/pdok/texel/processing.")
			out.put(map[string]any{"e": "Hang", "blocked_in_processing": blocked})
			out.close()
			return 0 // the hung goroutines cannot be cleaned up: stop this driver process here
		} else if status != "ok" {
			out.put(map[string]any{"e": "Panic", "msg": strings.SplitN(status, "\n", 2)[0]})
		}
	}
	return 0
}
