package main

import (
	"flag"
	"fmt"
	"math"
	"math/rand"
	"os"
	"path/filepath"

	"github.com/go-spatial/geom"
	gsgpkg "github.com/go-spatial/geom/encoding/gpkg"
	"github.com/pdok/texel/processing"
	tgpkg "github.com/pdok/texel/processing/gpkg"
	"github.com/pdok/texel/tms20"
)

func init() { register("gpkg-pipe", gpkgPipe) }

// gpkgPipe: the real pipeline with a real SourceGeopackage and several real TargetGeopackages (run it from a binary built
// with -race). The polygon function returns for every target a polygon that names the feature and the target, so a row
// that carries another target's geometry is recognisable.
func gpkgPipe(args []string) int {
	fs := flag.NewFlagSet("gpkg-pipe", flag.ExitOnError)
	dir := fs.String("dir", "", "")
	seed := fs.Int64("seed", 1, "")
	count := fs.Int("count", 150, "")
	nt := fs.Int("targets", 3, "")
	extra := fs.Int("extra", 2, "attribute columns besides fid")
	page := fs.Int("p", 7, "")
	fault := fs.Int("fault", 0, "k > 0: the point table is a VIEW whose k-th row raises an SQLite run-time error while the source is read")
	fs.Parse(args)
	rng := rand.New(rand.NewSource(*seed))
	st := randTable(rng, "polys", *count, gsgpkg.Polygon)
	st.extra, st.gcolPos, st.srs = *extra, *extra, 28992
	empties := map[int]bool{}
	for i := range st.rows {
		st.rows[i].g = geom.Polygon{{{float64(i + 1), 0}, {float64(i + 1), 1}, {float64(i + 2), 0}}}
		if rng.Intn(10) == 0 {
			// POLYGON EMPTY: the polygon function returns nothing for it, so it must reach no target
			st.rows[i].g, st.rows[i].empty = geom.Polygon{}, true
			empties[i+1] = true
		}
	}
	pts := randTable(rng, "pts", *count/3, gsgpkg.Point)
	pts.srs = 28992
	src := filepath.Join(*dir, "src.gpkg")
	makeSource(src, []*srcTable{st, pts})
	if *fault > 0 {
		// a read fault in the middle of the feature stream: the GeoPackage standard allows a view as feature table; abs() of the
		// smallest int64 overflows when row k is stepped.  The run must not report success with features missing.
		h, err := gsgpkg.Open(src)
		if err != nil {
			fatal("open source: %v", err)
		}
		for _, q := range []string{
			`CREATE TABLE fbase (fid INTEGER PRIMARY KEY, geom BLOB, val INTEGER)`,
			`CREATE VIEW fview AS SELECT fid, geom, abs(val) AS val FROM fbase`,
			`INSERT INTO gpkg_contents(table_name, data_type, identifier, srs_id) VALUES('fview','features','fview',28992)`,
			`INSERT INTO gpkg_geometry_columns(table_name, column_name, geometry_type_name, srs_id, z, m) VALUES('fview','geom','POINT',28992,0,0)`} {
			if _, err := h.Exec(q); err != nil {
				fatal("%s: %v", q, err)
			}
		}
		for i := 1; i <= 2**fault; i++ {
			sb, _ := gsgpkg.NewBinary(28992, geom.Point{float64(i), float64(i)})
			val := int64(-i)
			if i == *fault {
				val = math.MinInt64
			}
			if _, err := h.Exec(`INSERT INTO fbase(fid, geom, val) VALUES(?,?,?)`, i, sb, val); err != nil {
				fatal("insert: %v", err)
			}
		}
		h.Close()
	}
	source := tgpkg.SourceGeopackage{}
	source.Init(src)
	tables := source.GetTableInfo()
	if *fault > 0 {
		// the real source read through the real pipeline into counting targets (texel's GeoPackage target cannot create a table for
		// a view): how many features of the faulting table reach every target - if the run returns at all
		cts := map[tms20.TMID]*countTarget{}
		pts_ := map[tms20.TMID]processing.Target{}
		for t := 0; t < *nt; t++ {
			cts[3+2*t] = &countTarget{}
			pts_[3+2*t] = cts[3+2*t]
		}
		faultRows := []int{}
		for _, table := range tables {
			if table.Name != "fview" {
				continue
			}
			source.Table = table
			processing.ProcessFeatures(source, pts_, func(p geom.Polygon, tmIDs []tms20.TMID) map[tms20.TMID][]geom.Polygon { return nil })
		}
		for t := 0; t < *nt; t++ {
			faultRows = append(faultRows, cts[3+2*t].n)
		}
		source.Close()
		out := newJSONL("-")
		out.put(map[string]any{"e": "GpkgPipe", "targets": *nt, "extra": *extra, "expected": 0, "rows": []int{}, "wrong_geom": 0, "disorder": 0,
			"other_expected": 0, "other_rows": []int{}, "fault": *fault, "fault_expected": 2 * *fault, "fault_rows": faultRows})
		out.close()
		return 0
	}
	targets := map[tms20.TMID]*tgpkg.TargetGeopackage{}
	ptargets := map[tms20.TMID]processing.Target{}
	ids := []int{}
	for t := 0; t < *nt; t++ {
		id := 3 + 2*t
		ids = append(ids, id)
		path := filepath.Join(*dir, fmt.Sprintf("t_%d.gpkg", id))
		os.Remove(path)
		tg := &tgpkg.TargetGeopackage{}
		tg.Init(path, *page)
		if err := tg.CreateTables(tables); err != nil {
			fatal("CreateTables: %v", err)
		}
		targets[id] = tg
		ptargets[id] = tg
	}
	f := func(p geom.Polygon, tmIDs []tms20.TMID) map[tms20.TMID][]geom.Polygon {
		out := map[tms20.TMID][]geom.Polygon{}
		if len(p) == 0 {
			return out
		}
		i := p[0][0][0]
		for _, id := range tmIDs {
			out[id] = []geom.Polygon{{{{i, float64(id)}, {i, float64(id) + 1}, {i + 1, float64(id)}}}}
		}
		return out
	}
	for _, table := range tables {
		source.Table = table
		for _, tg := range targets {
			tg.Table = table
		}
		processing.ProcessFeatures(source, ptargets, f)
	}
	for _, tg := range targets {
		tg.Close()
	}
	source.Close()
	rows := []int{}
	wrong, disorder, otherRows := 0, 0, []int{}
	for _, id := range ids {
		d := dumpGpkg(filepath.Join(*dir, fmt.Sprintf("t_%d.gpkg", id)))
		td := d["polys"]
		rows = append(rows, len(td.Rows))
		for k, g := range td.Geoms {
			pg, ok := g.(geom.Polygon)
			if !ok || len(pg) != 1 || len(pg[0]) != 3 {
				wrong++
				continue
			}
			if int(pg[0][0][1]) != id {
				wrong++ // the geometry computed for another tile matrix
			}
			if k > 0 {
				if prev, ok := td.Geoms[k-1].(geom.Polygon); ok && len(prev) == 1 && len(prev[0]) == 3 && prev[0][0][0] >= pg[0][0][0] {
					disorder++
				}
			}
			if empties[int(pg[0][0][0])] {
				wrong++
			}
		}
		otherRows = append(otherRows, len(d["pts"].Rows))
	}
	out := newJSONL("-")
	out.put(map[string]any{"e": "GpkgPipe", "targets": *nt, "extra": *extra, "expected": *count - len(empties), "rows": rows, "wrong_geom": wrong, "disorder": disorder,
		"other_expected": *count / 3, "other_rows": otherRows, "fault": 0, "fault_expected": 0, "fault_rows": []int{}})
	out.close()
	return 0
}

// countTarget counts the features a pipeline run delivers to it
type countTarget struct{ n int }

func (t *countTarget) WriteFeatures(in <-chan processing.Feature) {
	for range in {
		t.n++
	}
}
