package main

import (
	"flag"
	"fmt"
	"math/rand"
	"os"
	"path/filepath"

	"github.com/go-spatial/geom"
	gsgpkg "github.com/go-spatial/geom/encoding/gpkg"
	"github.com/pdok/texel/processing"
	tgpkg "github.com/pdok/texel/processing/gpkg"
	"github.com/pdok/texel/tms20"
)

func init() { register("gpkg-pipe", gpkgPipe) }

// gpkgPipe: the real pipeline with a real SourceGeopackage and several real TargetGeopackages (run it from a binary built
// with -race). The polygon function returns for every target a polygon that names the feature and the target, so a row
// that carries another target's geometry is recognisable.
func gpkgPipe(args []string) int {
	fs := flag.NewFlagSet("gpkg-pipe", flag.ExitOnError)
	dir := fs.String("dir", "", "")
	seed := fs.Int64("seed", 1, "")
	count := fs.Int("count", 150, "")
	nt := fs.Int("targets", 3, "")
	extra := fs.Int("extra", 2, "attribute columns besides fid")
	page := fs.Int("p", 7, "")
	fs.Parse(args)
	rng := rand.New(rand.NewSource(*seed))
	st := randTable(rng, "polys", *count, gsgpkg.Polygon)
	st.extra, st.gcolPos, st.srs = *extra, *extra, 28992
	empties := map[int]bool{}
	for i := range st.rows {
		st.rows[i].g = geom.Polygon{{{float64(i + 1), 0}, {float64(i + 1), 1}, {float64(i + 2), 0}}}
		if rng.Intn(10) == 0 {
			// POLYGON EMPTY: the polygon function returns nothing for it, so it must reach no target
			st.rows[i].g, st.rows[i].empty = geom.Polygon{}, true
			empties[i+1] = true
		}
	}
	pts := randTable(rng, "pts", *count/3, gsgpkg.Point)
	pts.srs = 28992
	src := filepath.Join(*dir, "src.gpkg")
	makeSource(src, []*srcTable{st, pts})
	source := tgpkg.SourceGeopackage{}
	source.Init(src)
	tables := source.GetTableInfo()
	targets := map[tms20.TMID]*tgpkg.TargetGeopackage{}
	ptargets := map[tms20.TMID]processing.Target{}
	ids := []int{}
	for t := 0; t < *nt; t++ {
		id := 3 + 2*t
		ids = append(ids, id)
		path := filepath.Join(*dir, fmt.Sprintf("t_%d.gpkg", id))
		os.Remove(path)
		tg := &tgpkg.TargetGeopackage{}
		tg.Init(path, *page)
		if err := tg.CreateTables(tables); err != nil {
			fatal("CreateTables: %v", err)
		}
		targets[id] = tg
		ptargets[id] = tg
	}
	f := func(p geom.Polygon, tmIDs []tms20.TMID) map[tms20.TMID][]geom.Polygon {
		out := map[tms20.TMID][]geom.Polygon{}
		if len(p) == 0 {
			return out
		}
		i := p[0][0][0]
		for _, id := range tmIDs {
			out[id] = []geom.Polygon{{{{i, float64(id)}, {i, float64(id) + 1}, {i + 1, float64(id)}}}}
		}
		return out
	}
	for _, table := range tables {
		source.Table = table
		for _, tg := range targets {
			tg.Table = table
		}
		processing.ProcessFeatures(source, ptargets, f)
	}
	for _, tg := range targets {
		tg.Close()
	}
	source.Close()
	rows := []int{}
	wrong, disorder, otherRows := 0, 0, []int{}
	for _, id := range ids {
		d := dumpGpkg(filepath.Join(*dir, fmt.Sprintf("t_%d.gpkg", id)))
		td := d["polys"]
		rows = append(rows, len(td.Rows))
		for k, g := range td.Geoms {
			pg, ok := g.(geom.Polygon)
			if !ok || len(pg) != 1 || len(pg[0]) != 3 {
				wrong++
				continue
			}
			if int(pg[0][0][1]) != id {
				wrong++ // the geometry computed for another tile matrix
			}
			if k > 0 {
				if prev, ok := td.Geoms[k-1].(geom.Polygon); ok && len(prev) == 1 && len(prev[0]) == 3 && prev[0][0][0] >= pg[0][0][0] {
					disorder++
				}
			}
			if empties[int(pg[0][0][0])] {
				wrong++
			}
		}
		otherRows = append(otherRows, len(d["pts"].Rows))
	}
	out := newJSONL("-")
	out.put(map[string]any{"e": "GpkgPipe", "targets": *nt, "extra": *extra, "expected": *count - len(empties), "rows": rows, "wrong_geom": wrong, "disorder": disorder,
		"other_expected": *count / 3, "other_rows": otherRows})
	out.close()
	return 0
}
