"""C10 — every feature reaches every target exactly as it should.  Spec: Pipeline.tla, PipelineTrace.tla."""
import pipecheck

PROP = "C10"


def run(tier):
    return pipecheck.run_pipe_property(PROP, tier)


def replay(path):
    return pipecheck.replay(path)
