"""C05 — returned rings well formed, correctly oriented, collapse policy respected.  Spec: SnapTrace.tla (C05_WellFormed, C05_KeepExtends)."""
import snapcheck
import vlib

PROP = "C05"


def plans(tier):
    s = vlib.seed()
    if tier == "quick":
        return [dict(gens="arbitrary,collapse,star,hole,spiral,court", variants="base,keep,rev", n=1400, W=6, nmax=12, bias=0.6, seed=s),
                dict(gens="arbitrary", variants="base,keep", n=600, W=3, nmax=16, bias=0.7, seed=s + 1)]
    return [dict(gens="arbitrary,collapse,star,hole", variants="base,keep,rev", n=40000, W=6, nmax=14, bias=0.6, seed=s),
            dict(gens="arbitrary", variants="base,keep", n=30000, W=3, nmax=20, bias=0.7, seed=s + 1),
            dict(gens="collapse,hole,spiral,court", variants="base,keep,rev", n=24000, W=8, nmax=12, bias=0.6, seed=s + 2)]


def real_plans(tier):
    s = vlib.seed()
    q = tier == "quick"
    return [dict(real=True, gens="spiky,arbitrary,star,hole", variants="base,keep", n=600 if q else 20000, seed=s + 50, where="interior,origin,nl,f4"),
            dict(real=True, sets="WebMercatorQuad,UPSAntarcticWGS84Quad", gens="spiky", variants="base,keep", n=200 if q else 8000, seed=s + 51, where="f4,interior")]


def run(tier):
    def extra(drv, d):
        kl, sl, nseq, r = snapcheck.chains_lines(drv, tier)
        return sl
    return snapcheck.run_snap_property(
        PROP, tier, "SnapTrace_C05.cfg", plans(tier), extra_lines=extra, real_plans=real_plans(tier), real_cfg="RealTrace_C05.cfg",
        rule="arbitrary vertex sequences from small point pools (repeated vertices, spikes, rings of 0-2 points, up to 3 rings) and valid "
             "polygons, each run with keep-points-and-lines off and on (and reverse toggled); ring structure, orientation by sign of area, "
             "collapse policy and the keep/no-keep relation judged by TLC")


def replay(path):
    return snapcheck.replay_snap(path)
