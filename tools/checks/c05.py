"""C05 — returned rings well formed, correctly oriented, collapse policy respected.  Spec: SnapTrace.tla (C05_WellFormed, C05_KeepExtends)."""
import snapcheck
import vlib

PROP = "C05"


def plans(tier):
    s = vlib.seed()
    if tier == "quick":
        return [dict(gens="arbitrary,collapse,star,hole,spiral,court", variants="base,keep,rev", n=1400, W=6, nmax=12, bias=0.6, seed=s),
                dict(gens="arbitrary", variants="base,keep", n=600, W=3, nmax=16, bias=0.7, seed=s + 1)]
    return [dict(gens="arbitrary,collapse,star,hole", variants="base,keep,rev", n=40000, W=6, nmax=14, bias=0.6, seed=s),
            dict(gens="arbitrary", variants="base,keep", n=30000, W=3, nmax=20, bias=0.7, seed=s + 1),
            dict(gens="collapse,hole,spiral,court", variants="base,keep,rev", n=24000, W=8, nmax=12, bias=0.6, seed=s + 2)]


def real_plans(tier):
    s = vlib.seed()
    q = tier == "quick"
    return [dict(real=True, gens="spiky,arbitrary,star,hole", variants="base,keep", n=600 if q else 20000, seed=s + 50, where="interior,origin,nl,f4"),
            dict(real=True, sets="WebMercatorQuad,UPSAntarcticWGS84Quad", gens="spiky", variants="base,keep", n=200 if q else 8000, seed=s + 51, where="f4,interior")]


def split_part(tier, drv, cov):
    """SplitRing.tla: splitRing as the code does it (stack of partial rings, panic guard, classification) transcribed; TLC
    enumerates closed label sequences x hit-multiple sets and shows: no panic, edges conserved, loops simple; every input is
    replayed through the real splitRing as outer and as inner ring (SplitRingTrace.tla)."""
    import concurrent.futures
    import json
    cfg = "MC_SplitRing_quick.cfg" if tier == "quick" else "MC_SplitRing_thorough.cfg"
    r = vlib.run_tlc("SplitRing", cfg, timeout=7200, heap="8g", gc="parallel")
    if not r.ok:
        raise vlib.Broken("design model SplitRing/%s fails: %s\n%s" % (cfg, r.violated or r.error, r.trace_text[:2000]))
    if len(r.vecs) < 10000:
        raise vlib.Broken("expected at least 10000 inputs from MC_SplitRing, got %d" % len(r.vecs))
    p = vlib.run([drv, "split-replay"], input="\n".join(json.dumps(x) for x in r.vecs) + "\n", timeout=1800)
    if p.returncode != 0:
        raise vlib.Broken("split-replay failed: " + p.stderr[-2000:])
    lines = p.stdout.splitlines()
    anomalies = []
    states = 0
    chunks = [lines[i::8] for i in range(8)]
    with concurrent.futures.ThreadPoolExecutor(max_workers=8) as ex:
        futs = [ex.submit(vlib.validate_records, "SplitRingTrace", "SplitRingTrace.cfg", "split_trace.ndjson", c, None, 2, 3600, 3,
                          lambda inv, idx, line: anomalies.append((inv, line))) for c in chunks]
        for f in futs:
            states += f.result()[0]
    cov["splitring_model"] = {"model": cfg, "states": r.distinct, "inputs": len(r.vecs), "wall_s": round(r.wall, 1)}
    cov["splitring_records_replayed"] = len(lines)
    cov["splitring_anomalies"] = len(anomalies)
    cov["states"] += r.distinct + states
    cov["traces_validated_against_impl"] += len(lines)
    return anomalies


def run(tier):
    def extra(drv, d):
        kl, sl, nseq, r = snapcheck.chains_lines(drv, tier)
        return sl

    def post(v, drv, cov):
        anomalies = split_part(tier, drv, cov)
        if anomalies and not v.violations:
            # label rings with arbitrary hit-multiple sets are not shown reachable from a polygon: no verdict on C05 from them
            raise vlib.Broken("the real splitRing differs from SplitRing.tla on %d record(s), e.g. %s (%s): the design results do not "
                              "transfer to this code, and no polygon-level failure was found" % (len(anomalies), anomalies[0][1][:400], anomalies[0][0]))
    return snapcheck.run_snap_property(
        PROP, tier, "SnapTrace_C05.cfg", plans(tier), design=('snap', 'snapcode'), extra_lines=extra, post=post, real_plans=real_plans(tier), real_cfg="RealTrace_C05.cfg", codesnap=True,
        rule="arbitrary vertex sequences from small point pools (repeated vertices, spikes, rings of 0-2 points, up to 3 rings) and valid "
             "polygons, each run with keep-points-and-lines off and on (and reverse toggled); ring structure, orientation by sign of area, "
             "collapse policy and the keep/no-keep relation judged by TLC")


def replay(path):
    return snapcheck.replay_snap(path)
