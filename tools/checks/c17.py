"""C17 — Z-order pixel keys are unique and hierarchical.  Spec: Morton.tla, MortonTrace.tla."""
import json
import os
import time

import vlib
from vlib import Broken, log

PROP = "C17"


def _consts(drv):
    p = vlib.run([drv, "morton-consts", "-src", os.path.join(vlib.REPO, "morton/morton.go")])
    if p.returncode == 0 and "MODULE MortonConsts" in p.stdout:
        return p.stdout, True
    if p.returncode == 3:
        log("[C17] morton.go no longer has the shape the extractor understands (%s); using the committed "
            "constants for the design check, the code is still bound by replay and trace validation" % p.stderr.strip())
        return open(os.path.join(vlib.SPEC, "MortonConsts.tla")).read(), False
    raise Broken("morton-consts failed: " + p.stderr)


def _trace_check(drv, consts, n, sd, v, stats):
    d = vlib.scratch("c17trace")
    try:
        tr = os.path.join(d, "morton_trace.ndjson")
        vlib.run([drv, "morton-trace", "-seed", str(sd), "-n", str(n), "-out", tr], check=True)
        lines = open(tr).read().splitlines()
        removed = 0
        while True:
            r = vlib.run_tlc("MortonTrace", "MortonTrace.cfg", timeout=1800,
                             data={"MortonConsts.tla": consts, "morton_trace.ndjson": "\n".join(lines) + "\n"})
            stats["trace_states"] += r.distinct
            if r.ok:
                break
            if r.violated:
                import re
                m = re.findall(r"l = (\d+)", r.trace_text)
                if not m:
                    raise Broken("cannot locate failing record:\n" + r.out[-2000:])
                idx = int(m[-1]) - 1
                rec = json.loads(lines[idx])
                v.violation("real morton code breaks %s on record %s" % (r.violated, lines[idx][:300]),
                            {"kind": "morton-record", "invariant": r.violated, "record": rec}, name="trace")
                del lines[idx]
                removed += 1
                if removed >= 5:
                    break
                continue
            raise Broken("MortonTrace: " + (r.error or "") + "\n" + r.out[-3000:])
        stats["trace_records"] += len(lines) + removed
        stats["samples"].append(json.loads(lines[min(200, len(lines) - 1)]))
    finally:
        vlib.rm(d)


def run(tier):
    t0 = time.time()
    v = vlib.Verdict(PROP)
    drv = vlib.build_harness()
    consts, extracted = _consts(drv)
    stats = {"trace_states": 0, "trace_records": 0, "samples": []}

    # D: exhaustive design check of the network the code contains
    mcfg, mexp = ("MC_Morton.cfg", 17457) if tier == "quick" else ("MC_Morton_deep.cfg", 279841)   # deep: 3.64 M states, about a minute
    r = vlib.run_tlc("Morton", mcfg, timeout=3600, data={"MortonConsts.tla": consts}, heap="3g" if tier == "quick" else "10g",
                     gc="serial" if tier == "quick" else "parallel")
    design_ok = r.ok
    if not r.ok and not r.violated:
        raise Broken("MC_Morton: " + (r.error or "") + "\n" + r.out[-3000:])
    vecs = r.vecs
    if design_ok and len(vecs) < mexp:
        raise Broken("expected %d vectors from %s, got %d" % (mexp, mcfg, len(vecs)))

    # R: every TLC vector through the real ToZ / FromZ
    replayed = 0
    if vecs:
        inp = "\n".join(json.dumps(x) for x in vecs) + "\n"
        p = vlib.run([drv, "morton-replay"], input=inp, check=True)
        for line in p.stdout.splitlines():
            o = json.loads(line)
            if o.get("mismatch"):
                v.violation("ToZ/FromZ differ from the specified key for x=%d y=%d" % (o["x"], o["y"]),
                            {"kind": "morton-vector", **o}, name="replay")
            elif o.get("summary"):
                replayed = o["n"]
        stats["samples"].append(vecs[len(vecs) // 2])

    # T: records of the real code on wide / random / structured words judged by the set model
    n = 400 if tier == "quick" else 6000
    seeds = [vlib.seed()] if tier == "quick" else [vlib.seed(), vlib.seed() + 1000, vlib.seed() + 2000]
    for sd in seeds:
        _trace_check(drv, consts, n, sd, v, stats)

    # P: TLAPS proves that every stage (for arbitrary masks / shifts / words) is a union-homomorphism: the lift from the generators
    obligations, proved = vlib.run_tlapm("MortonProofs")

    if not design_ok and not v.violations:
        raise Broken("design check of the extracted network failed (%s) but the real code agrees with the "
                     "specification on every replayed vector and record: the model does not represent the code\n%s"
                     % (r.violated, r.trace_text[:1500]))
    rc = v.finish()
    vlib.write_evidence(PROP, tier, "model_checking", {
        "states": r.distinct, "transitions": r.generated,
        "traces_validated_against_impl": stats["trace_records"] + replayed,
        "samples": stats["samples"][:4],
        "exhaustive": True,
        "design_model": ("MC_Morton: all x with <=2 bits x all y with <=1 bit of 32" if tier == "quick" else "MC_Morton_deep: all x and all y with <=2 bits of 32") + "; network constants %s"
                        % ("extracted from morton.go" if extracted else "COMMITTED COPY (extraction failed)"),
        "vectors_replayed": replayed, "tlaps_obligations": obligations, "tlaps_proved": proved,
        "tlaps_module": "MortonProofs.tla: ShlLinear, ShrLinear, StageLinear, SqueezeLinear, CombineLinear, StageEmpty",
        "trace_records": stats["trace_records"], "trace_states": stats["trace_states"],
        "rule": "replay: every initial state of MC_Morton; trace: random/sparse/dense/run/power-of-two/over-32-bit words, "
                "all 128 single-bit words, linearity, parent and child-key records",
    }, time.time() - t0, violations=len(v.violations),
        assumptions=["a Go uint is 64 bits and |, &, <<, >> on it are the set operations of the model",
                     "loop body shape of ToZ/FromZ as transcribed; bound by replay + trace records"])
    return rc


def replay(path):
    o = json.load(open(path))
    drv = vlib.build_harness()
    if o["kind"] == "morton-vector":
        vec = {"x": [i for i in range(64) if o["x"] >> i & 1], "y": [i for i in range(64) if o["y"] >> i & 1],
               "z": [i for i in range(64) if o["spec_z"] >> i & 1]}
        p = vlib.run([drv, "morton-replay"], input=json.dumps(vec) + "\n", check=True)
        print(p.stdout)
        return 1 if '"mismatch"' in p.stdout else 0
    print(json.dumps(o, indent=1))
    return 0
