"""C11 — the pipeline always finishes, and only after every target is done.  Spec: Pipeline.tla (safety, liveness, deadlock), PipelineTrace.tla."""
import pipecheck

PROP = "C11"


def run(tier):
    return pipecheck.run_pipe_property(PROP, tier)


def replay(path):
    return pipecheck.replay(path)
