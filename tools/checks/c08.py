"""C08 — a tile matrix's result does not depend on which others are requested.  Spec: SnapTrace.tla (C08_*)."""
import snapcheck
import vlib

PROP = "C08"


def plans(tier):
    s = vlib.seed()
    if tier == "quick":
        return [dict(gens="star,hole,collapse,arbitrary", variants="base,subsets", n=900, W=8, nmax=12, bias=0.6, seed=s),
                # arrowheads with a sliver wing: the ring falls apart on a DEEPER level and survives on a shallower one
                dict(gens="dart", variants="base,subsets", n=600, W=8, nmax=10, bias=0.3, seed=s + 2)]
    return [dict(gens="star,hole,collapse,arbitrary", variants="base,subsets", n=40000, W=8, nmax=14, bias=0.6, seed=s),
            dict(gens="collapse,arbitrary", variants="base,subsets", n=20000, W=6, nmax=16, bias=0.8, seed=s + 1),
            dict(gens="dart", variants="base,subsets", n=12000, W=8, nmax=10, bias=0.3, seed=s + 2)]


def real_plans(tier):
    s = vlib.seed()
    q = tier == "quick"
    return [dict(real=True, sets="NetherlandsRDNewQuad", gens="star,hole,spiky,arbitrary", variants="base,subsets", n=300 if q else 10000, seed=s + 50, where="interior,origin,far,nl", maxz=16),
            # a round grid whose deepest pixel is an odd number of 1e-10 units: exact float comparison across subsets that include the deepest id
            dict(real=True, sets="syn-odd", gens="star,hole,arbitrary", variants="base,subsets", n=200 if q else 5000, seed=s + 51, where="interior,origin,far", maxz=8, extra=["-minz", "5"])]


def run(tier):
    return snapcheck.run_snap_property(
        PROP, tier, "SnapTrace_C08.cfg", plans(tier), design=('snap', 'levels'), real_plans=real_plans(tier), real_cfg="RealTrace_C08.cfg",
        require_repro=False, codesnap=(tier == "thorough"),   # a recorded disagreement between two real calls is real behaviour even if a re-execution agrees (map order)
        rule="round synthetic grids; each input is snapped for its full set of 1-3 tile matrices and for every non-empty proper subset, the ids in ascending, reversed or shuffled order; "
             "TLC demands keys within the request and identical geometry per tile matrix across all records of the group")


def replay(path):
    return snapcheck.replay_snap(path)
