"""C07 — deterministic and independent of how the polygon is written down.  Spec: SnapTrace.tla (C07_*)."""
import snapcheck
import vlib

PROP = "C07"


def plans(tier):
    s = vlib.seed()
    if tier == "quick":
        return [dict(gens="star,hole,collapse", variants="base,again,rev,ringrev", n=900, W=6, nmax=12, bias=0.6, seed=s),
                dict(gens="arbitrary", variants="base,again,rev", n=500, W=4, nmax=14, bias=0.7, seed=s + 1),
                # multi-turn spirals: several equal loops per level, the inputs on which the assembly stage deletes more than one ring
                dict(gens="spiral", variants="base,again,again", n=1500, W=10, nmax=12, bias=0.5, seed=s + 3)]
    return [dict(gens="star,hole,collapse", variants="base,again,rev,ringrev", n=30000, W=6, nmax=14, bias=0.6, seed=s),
            dict(gens="arbitrary", variants="base,again,rev", n=20000, W=4, nmax=16, bias=0.7, seed=s + 1),
            dict(gens="hole,collapse", variants="base,again,rev,ringrev", n=15000, W=8, nmax=12, bias=0.5, seed=s + 2),
            dict(gens="spiral", variants="base,again", n=20000, W=10, nmax=12, bias=0.5, seed=s + 3),
            dict(gens="spiral", variants="base,again", n=6000, W=14, nmax=12, bias=0.5, seed=s + 4)]


def real_plans(tier):
    s = vlib.seed()
    q = tier == "quick"
    return [dict(real=True, gens="star,hole,spiky,arbitrary", variants="base,again,rev,ringrev", n=300 if q else 10000, seed=s + 50, where="interior,origin,nl"),
            # small polygons far from the CRS origin at deep levels: orientation arithmetic on absolute coordinates is at its worst here
            dict(real=True, sets="WebMercatorQuad,WorldMercatorWGS84Quad,UPSAntarcticWGS84Quad", gens="star,hole", variants="base,ringrev", n=400 if q else 10000,
                 seed=s + 51, where="origin,interior,nl", extra=["-minz", "17"])]


def run(tier):
    return snapcheck.run_snap_property(
        PROP, tier, "SnapTrace_C07.cfg", plans(tier), codesnap=(tier == "thorough"), real_plans=real_plans(tier), real_cfg="RealTrace_C07.cfg", second_process=True, require_repro=False,
        rule="every input is snapped twice in one process and once more in a separate process (Go randomises map iteration per range "
             "and per process), with the reverse flag toggled, and (valid polygons) with the shell / a random subset of rings reversed; "
             "TLC decides which records of a group have equal inputs and demands identical (resp. ring-wise reversed) results")


def replay(path):
    return snapcheck.replay_snap(path)
