"""C02 — each edge is routed through exactly the hot pixels it meets.  Spec: Grid.tla, MC_Route.tla, RouteTrace.tla
(second sentence, non-collapsing polygons: Snap.tla / SnapTrace.tla invariant C02_NonCollapsingExact)."""
import json
import os
import time

import vlib
from vlib import Broken, log

PROP = "C02"


def run(tier):
    t0 = time.time()
    v = vlib.Verdict(PROP)
    drv = vlib.build_harness()
    cov = {"samples": []}

    # D0: the routing oracle itself against a brute-force definition (guards against an over-strict spec)
    r0 = vlib.run_tlc("MC_Route", "MC_GridSelf.cfg", timeout=1800, want_vecs=False)
    if not r0.ok:
        raise Broken("the routing oracle of Grid.tla fails its own brute-force cross-check: %s\n%s"
                     % (r0.violated or r0.error, r0.trace_text[:2000]))
    cov["oracle_selfcheck_states"] = r0.distinct
    # D1: the transcription of the quadtree descent (case table, candidate order, mutex) returns exactly Route
    import snapcheck as _sc
    cov["design_models"] = _sc.run_design(("descent",), tier)

    # D + R: every segment of the window x hot sets -> real SnapClosestPoints at several placements
    cfg = "MC_Route_quick.cfg" if tier == "quick" else "MC_Route_thorough.cfg"
    W = 2 if tier == "quick" else 3
    r = vlib.run_tlc("MC_Route", cfg, timeout=3600)
    if not r.ok:
        raise Broken("MC_Route: %s\n%s" % (r.violated or r.error, r.out[-2000:]))
    if len(r.vecs) < 1000:
        raise Broken("MC_Route produced only %d vectors" % len(r.vecs))
    summary, mism = vlib.replay_vectors(drv, ["route-replay", "-S", "4", "-W", str(W), "-tier", tier,
                                              "-seed", str(vlib.seed()), "-maxbad", "50"], r.vecs)
    for m in mism[:10]:
        v.violation("SnapClosestPoints returned %s, specified route %s for segment %s-%s (hot mode %s) at placement %s%s"
                    % (m["got"], m["vec"]["route"], m["vec"]["a"], m["vec"]["b"], m["vec"]["m"], m["placement"],
                       (" PANIC " + m["panic"]) if m.get("panic") else ""),
                    {"kind": "route-vector", "S": 4, "W": W, "vec": m["vec"], "placement": m["placement"]}, name="route")
    if summary["bad"] > len(mism[:10]):
        log("  (%d replays differ in total)" % summary["bad"])
    cov["samples"].append(r.vecs[len(r.vecs) // 3])

    # T: random segments / hot sets in a larger window recorded from the real code, judged by Grid!Route
    n = 1500 if tier == "quick" else 20000
    d = vlib.scratch("c02trace")
    try:
        tr = os.path.join(d, "t.ndjson")
        vlib.run([drv, "route-trace", "-seed", str(vlib.seed()), "-n", str(n), "-W", "6", "-out", tr], check=True)
        lines = open(tr).read().splitlines()
    finally:
        vlib.rm(d)

    def on_fail(inv, idx, line):
        v.violation("recorded SnapClosestPoints call breaks %s: %s" % (inv, line[:400]),
                    {"kind": "route-record", "invariant": inv, "record": json.loads(line)}, name="trace")
    tstates, nrec = vlib.validate_records("RouteTrace", "RouteTrace.cfg", "route_trace.ndjson", lines, on_fail=on_fail)
    cov["samples"].append(json.loads(lines[0]))

    # second sentence: non-collapsing valid polygons come back as exactly their routed boundary (SnapTrace C02_NonCollapsingExact)
    import snapcheck
    sd = vlib.seed()
    plans = ([dict(gens="star,hole", variants="base", n=1200, W=8, nmax=10, bias=0.5, seed=sd)] if tier == "quick" else
             [dict(gens="star,hole", variants="base", n=30000, W=8, nmax=12, bias=0.5, seed=sd),
              dict(gens="star,hole,collapse", variants="base", n=20000, W=10, nmax=10, bias=0.7, seed=sd + 1)])
    d2 = vlib.scratch("c02snap")
    try:
        slines = snapcheck.generate(drv, d2, plans)
    finally:
        vlib.rm(d2)
    sres = snapcheck.validate(PROP, "SnapTrace_C02.cfg", slines, v, drv)
    # inside SnapPolygon: every segment step appends exactly the cleaned route, for every live level (SnapSteps S1, S2)
    d3 = vlib.scratch("c02steps")
    try:
        tlines = snapcheck.generate(drv, d3, [dict(gens="star,hole,collapse,rect,arbitrary", variants="base", n=500 if tier == "quick" else 30000, W=6, nmax=12,
                                                  bias=0.7, seed=sd + 5, extra=["-steps"])])
    finally:
        vlib.rm(d3)
    tres = snapcheck.validate(PROP, "SnapSteps_C02.cfg", tlines, v, drv, module="SnapSteps")
    cov["segment_step_records"] = len(tlines)
    sst = snapcheck.summarize(sres["stats"])
    if not v.violations and sst["noncollapsing"] < 100:      # (statistics are partial once a record has failed)
        raise Broken("vacuous: only %d non-collapsing (record, level) pairs" % sst["noncollapsing"])
    cov["polygon_records"] = len(slines)
    cov["polygon_record_stats"] = sst
    cov["samples"].append(json.loads(slines[0]))

    # built-in grids: insertion and routing must agree on the pixel of an end point whatever the float noise (RouteRealTrace)
    p5 = vlib.run([drv, "route-real", "-seed", str(sd), "-n", "4000" if tier == "quick" else "100000"], timeout=3600)
    if p5.returncode != 0:
        raise Broken("route-real failed: " + p5.stderr[-2000:])
    rlines = [x for x in p5.stdout.splitlines() if x.startswith("{")]

    def on_fail5(inv, idx, line):
        v.violation("built-in grid: %s fails: %s" % (inv, line[:400]), {"kind": "route-real-record", "invariant": inv, "record": json.loads(line)}, name="real")
    rstates, rn = vlib.validate_records("RouteRealTrace", "RouteRealTrace.cfg", "routereal_trace.ndjson", rlines, on_fail=on_fail5, workers=8)
    cov["real_grid_endpoint_records"] = rn

    rc = v.finish()
    cov.update({
        "states": r.distinct + r0.distinct + tstates + sres["states"] + tres["states"], "transitions": r.generated + r0.generated + sres["transitions"],
        "traces_validated_against_impl": summary["n"] + nrec + len(slines) + len(tlines),
        "vectors": len(r.vecs), "replays": summary["n"], "replay_mismatches": summary["bad"],
        "placements": summary["placements"], "vectors_with_endpoint_on_pixel_border": summary["endpoint_on_border"],
        "trace_records": nrec, "exhaustive": True,
        "rule": "all segments with endpoints on the quarter-pixel lattice of a %dx%d pixel window (borders included) x hot sets "
                "{all, end pixels, 2-3 derived subsets}, each replayed at every listed placement/level; plus random W=6 records" % (W, W),
    })
    vlib.write_evidence(PROP, tier, "model_checking", cov, time.time() - t0, violations=len(v.violations),
                        assumptions=["synthetic dyadic grids: every coordinate is a multiple of 2^-10 and converts exactly",
                                     "TLC; the oracle Grid!Meets is cross-checked against brute force (MC_GridSelf)"])
    return rc


def replay(path):
    o = json.load(open(path))
    drv = vlib.build_harness()
    if o["kind"] == "route-vector":
        summary, mism = vlib.replay_vectors(drv, ["route-replay", "-S", str(o["S"]), "-W", str(o["W"]), "-tier", "thorough"], [o["vec"]])
        for m in mism:
            print(json.dumps(m))
        return 1 if mism else 0
    if o["kind"] == "snap-group":
        import snapcheck
        return snapcheck.replay_snap(path)
    print(json.dumps(o, indent=1))
    return 0
