"""C01 — snapping never introduces crossing edges.  Spec: SnapTrace.tla (C01_NoCrossing), RingOps.tla, Grid.tla."""
import json

import snapcheck
import vlib

PROP = "C01"


def plans(tier):
    s = vlib.seed()
    if tier == "quick":
        return [dict(gens="star,hole,collapse,rect,spiral", variants="base", n=6000, W=6, nmax=14, bias=0.6, seed=s),
                dict(gens="star,hole", variants="base", n=5000, W=4, nmax=20, bias=0.85, seed=s + 1),
                dict(gens="star", variants="base", n=3000, W=3, nmax=24, bias=0.95, seed=s + 2),
                dict(gens="spiral", variants="base", n=1200, W=10, nmax=12, bias=0.5, seed=s + 4)]     # routed boundaries that repeat whole runs
    return [dict(gens="star,hole,collapse,rect", variants="base", n=70000, W=6, nmax=16, bias=0.6, seed=s),
            dict(gens="star,hole", variants="base", n=30000, W=4, nmax=24, bias=0.85, seed=s + 1),
            dict(gens="star,hole,collapse,spiral", variants="base", n=20000, W=8, nmax=24, bias=0.5, seed=s + 2),
            dict(gens="star", variants="base", n=20000, W=3, nmax=28, bias=0.9, seed=s + 3)]


def real_plans(tier):
    s = vlib.seed()
    q = tier == "quick"
    return [dict(real=True, gens="star,hole", variants="base", n=500 if q else 20000, seed=s + 50, where="interior,origin,far,nl")]


def dedupe_part(tier, drv, cov):
    """Dedupe.tla: kmpDeduplicate as the code does it, transcribed; TLC runs it on every label sequence without equal neighbours
    (4 labels <= 9 / 5 labels <= 10) and evaluates the contract of the spike removal; every sequence is replayed through the real
    function, which must return what the transcription computes (DedupeTrace.tla). The sequences on which an adjacency is invented
    (finding F5, the root of the only known way to a C01 crossing) are counted at design level."""
    import concurrent.futures
    cfg = "MC_Dedupe_quick.cfg" if tier == "quick" else "MC_Dedupe_thorough.cfg"
    r = vlib.run_tlc("Dedupe", cfg, timeout=7200, heap="10g", gc="parallel")
    if not r.ok:
        raise vlib.Broken("design model Dedupe/%s fails: %s\n%s" % (cfg, r.violated or r.error, r.trace_text[:2000]))
    vecs = [x for x in r.vecs if "ring" in x]
    if len(vecs) < 25000:
        raise vlib.Broken("expected at least 25000 sequences from MC_Dedupe, got %d" % len(vecs))
    p = vlib.run([drv, "kmp-run"], input="\n".join(json.dumps({"ring": x["ring"]}) for x in vecs) + "\n", timeout=3600)
    if p.returncode != 0:
        raise vlib.Broken("kmp-run failed: " + p.stderr[-2000:])
    lines = p.stdout.splitlines()
    anomalies = []
    states = 0
    chunks = [lines[i::8] for i in range(8)]
    with concurrent.futures.ThreadPoolExecutor(max_workers=8) as ex:
        futs = [ex.submit(vlib.validate_records, "DedupeTrace", "DedupeTrace.cfg", "dedupe_trace.ndjson", c, None, 2, 7200, 3,
                          lambda inv, idx, line: anomalies.append((inv, line))) for c in chunks]
        for f in futs:
            states += f.result()[0]
    cov["dedupe_model"] = {"model": cfg, "states": r.distinct, "sequences": len(vecs), "wall_s": round(r.wall, 1),
                           "sequences_inventing_an_adjacency_F5": sum(1 for x in vecs if x["invents"])}
    cov["dedupe_sequences_replayed"] = len(lines)
    cov["dedupe_anomalies"] = len(anomalies)
    cov["states"] += r.distinct + states
    cov["traces_validated_against_impl"] += len(lines)
    return anomalies


def run(tier):
    def post(v, drv, cov):
        anomalies = dedupe_part(tier, drv, cov)
        if anomalies and not v.violations:
            raise vlib.Broken("the real kmpDeduplicate differs from Dedupe.tla on %d sequence(s), e.g. %s (%s): the design results do not "
                              "transfer to this code, and no polygon-level failure was found" % (len(anomalies), anomalies[0][1][:400], anomalies[0][0]))
    return snapcheck.run_snap_property(
        PROP, tier, "SnapTrace_C01.cfg", plans(tier), design=('snap', 'snapquad', 'rounding'), real_plans=real_plans(tier), real_cfg="RealTrace_C01.cfg", post=post,
        rule="random star-shaped / holed / collapse-prone lattice polygons (validity decided by the TLA+ predicate ValidPolygon), "
             "40-95 % of coordinates aligned to pixel borders or centres, 1-3 tile matrices per call, random flags, 5 synthetic grids "
             "at random placements; every pair of returned edges of every tile matrix tested for a proper crossing by TLC",
        min_valid_frac=0.3, classify=classify, codesnap=(tier == "thorough"))


def classify(inv, rec, grp):
    known = {f["id"]: f for f in vlib.known_for(PROP)}
    if "F5" in known and inv == "C01_NoCrossing" and "step" not in rec:      # synthetic-grid records carry exact lattice inputs
        w = snapcheck.f5_key_matches(vlib.build_harness(), [json.dumps(rec)])
        if w is not None and snapcheck.codesnap_agrees(rec):
            return ("F5", known["F5"]["what"])
    return None


def replay(path):
    return snapcheck.replay_snap(path)
