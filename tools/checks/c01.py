"""C01 — snapping never introduces crossing edges.  Spec: SnapTrace.tla (C01_NoCrossing), RingOps.tla, Grid.tla."""
import json

import snapcheck
import vlib

PROP = "C01"


def plans(tier):
    s = vlib.seed()
    if tier == "quick":
        return [dict(gens="star,hole,collapse,rect,spiral", variants="base", n=6000, W=6, nmax=14, bias=0.6, seed=s),
                dict(gens="star,hole", variants="base", n=5000, W=4, nmax=20, bias=0.85, seed=s + 1),
                dict(gens="star", variants="base", n=3000, W=3, nmax=24, bias=0.95, seed=s + 2)]
    return [dict(gens="star,hole,collapse,rect", variants="base", n=70000, W=6, nmax=16, bias=0.6, seed=s),
            dict(gens="star,hole", variants="base", n=30000, W=4, nmax=24, bias=0.85, seed=s + 1),
            dict(gens="star,hole,collapse,spiral", variants="base", n=20000, W=8, nmax=24, bias=0.5, seed=s + 2),
            dict(gens="star", variants="base", n=20000, W=3, nmax=28, bias=0.9, seed=s + 3)]


def real_plans(tier):
    s = vlib.seed()
    q = tier == "quick"
    return [dict(real=True, gens="star,hole", variants="base", n=500 if q else 20000, seed=s + 50, where="interior,origin,far,nl")]


def run(tier):
    return snapcheck.run_snap_property(
        PROP, tier, "SnapTrace_C01.cfg", plans(tier), design=('snap', 'snapquad', 'rounding'), real_plans=real_plans(tier), real_cfg="RealTrace_C01.cfg",
        rule="random star-shaped / holed / collapse-prone lattice polygons (validity decided by the TLA+ predicate ValidPolygon), "
             "40-95 % of coordinates aligned to pixel borders or centres, 1-3 tile matrices per call, random flags, 5 synthetic grids "
             "at random placements; every pair of returned edges of every tile matrix tested for a proper crossing by TLC",
        min_valid_frac=0.3, classify=classify)


def classify(inv, rec, grp):
    known = {f["id"]: f for f in vlib.known_for(PROP)}
    if "F5" in known and inv == "C01_NoCrossing" and "step" not in rec:      # synthetic-grid records carry exact lattice inputs
        w = snapcheck.f5_key_matches(vlib.build_harness(), [json.dumps(rec)])
        if w is not None:
            return ("F5", known["F5"]["what"])
    return None


def replay(path):
    return snapcheck.replay_snap(path)
