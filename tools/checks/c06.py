"""C06 — snapping is total: no panic, no hang.  Spec: SnapTrace.tla (C06_NoPanic, C06_Time)."""
import snapcheck
import vlib

PROP = "C06"


def plans(tier):
    s = vlib.seed()
    if tier == "quick":
        return [dict(gens="arbitrary", variants="base", n=3000, W=4, nmax=16, bias=0.7, seed=s),
                dict(gens="arbitrary,collapse", variants="base", n=1500, W=8, nmax=24, bias=0.5, seed=s + 1)]
    return [dict(gens="arbitrary", variants="base", n=120000, W=4, nmax=20, bias=0.7, seed=s),
            dict(gens="arbitrary,collapse", variants="base", n=60000, W=8, nmax=32, bias=0.5, seed=s + 1),
            dict(gens="arbitrary", variants="base", n=60000, W=2, nmax=24, bias=0.9, seed=s + 2)]


def real_plans(tier):
    s = vlib.seed()
    q = tier == "quick"
    return [dict(real=True, gens="arbitrary,spiky", variants="base", n=600 if q else 20000, seed=s + 50, where="interior,origin,far,nl"),
            dict(real=True, sets="WebMercatorQuad,EuropeanETRS89_LAEAQuad,NZTM2000Quad,WorldMercatorWGS84Quad", gens="star", variants="base", n=60 if q else 600, seed=s + 51, where="farband"),
            dict(real=True, sets="WebMercatorQuad,NZTM2000Quad,UPSArcticWGS84Quad,UPSAntarcticWGS84Quad,WorldMercatorWGS84Quad", gens="star,arbitrary", variants="base", n=60 if q else 600, seed=s + 52, where="interior", deep=True)]


def run(tier):
    return snapcheck.run_snap_property(
        PROP, tier, "SnapTrace_C06.cfg", plans(tier), real_plans=real_plans(tier), real_cfg="RealTrace_C06.cfg", classify=snapcheck.classify_known(PROP),
        rule="arbitrary in-grid vertex sequences (small point pools force repetition, spikes, zig-zags; rings of 0-2 points; up to 3 rings), "
             "all flag combinations and 1-3 levels; a recorded panic or a call slower than the (loose cubic) bound is a violation")


def replay(path):
    return snapcheck.replay_snap(path)
