"""C06 — snapping is total: no panic, no hang.  Spec: SnapTrace.tla (C06_NoPanic, C06_Time)."""
import json

import snapcheck
import vlib

PROP = "C06"


def plans(tier):
    s = vlib.seed()
    if tier == "quick":
        return [dict(gens="arbitrary", variants="base", n=3000, W=4, nmax=16, bias=0.7, seed=s),
                dict(gens="arbitrary,collapse", variants="base", n=1500, W=8, nmax=24, bias=0.5, seed=s + 1)]
    return [dict(gens="arbitrary", variants="base", n=120000, W=4, nmax=20, bias=0.7, seed=s),
            dict(gens="arbitrary,collapse", variants="base", n=60000, W=8, nmax=32, bias=0.5, seed=s + 1),
            dict(gens="arbitrary", variants="base", n=60000, W=2, nmax=24, bias=0.9, seed=s + 2)]


def real_plans(tier):
    s = vlib.seed()
    q = tier == "quick"
    return [dict(real=True, gens="arbitrary,spiky", variants="base", n=600 if q else 20000, seed=s + 50, where="interior,origin,far,nl"),
            dict(real=True, sets="WebMercatorQuad,EuropeanETRS89_LAEAQuad,NZTM2000Quad,WorldMercatorWGS84Quad", gens="star", variants="base", n=60 if q else 600, seed=s + 51, where="farband"),
            dict(real=True, sets="WebMercatorQuad,NZTM2000Quad,UPSArcticWGS84Quad,UPSAntarcticWGS84Quad,WorldMercatorWGS84Quad", gens="star,arbitrary", variants="base", n=60 if q else 600, seed=s + 52, where="interior", deep=True)]


def chains_part(tier):
    def extra(drv, d):
        kl, sl, nseq, r = snapcheck.chains_lines(drv, tier)
        v = vlib.Verdict(PROP)

        def on_fail(inv, idx, line):
            raise vlib.Broken("unexpected")
        # the spike removal itself on every sequence: no panic, never longer, only labels of its argument
        cfg = "SPECIFICATION Spec\nINVARIANTS NoPanic OnlyLabelsOfInput NeverLonger\nCHECK_DEADLOCK FALSE\n"
        fails = []
        vlib.validate_records("ChainsTrace", "ChainsTraceC06.cfg", "chains_trace.ndjson", kl, data={"ChainsTraceC06.cfg": cfg},
                              on_fail=lambda inv, idx, line: fails.append((inv, line)), workers=8)
        extra.fails = fails
        extra.nseq = nseq
        extra.states = r.distinct
        return sl
    return extra


def run(tier):
    extra = chains_part(tier)

    def post(v, drv, cov):
        for inv, line in getattr(extra, "fails", [])[:5]:
            v.violation("kmpDeduplicate on label sequence %s: %s fails" % (line[:200], inv), {"kind": "kmp-record", "invariant": inv, "record": json.loads(line)}, name="kmp")
        cov["label_sequences"] = getattr(extra, "nseq", 0)
        cov["states"] += getattr(extra, "states", 0)
    return snapcheck.run_snap_property(
        PROP, tier, "SnapTrace_C06.cfg", plans(tier), extra_lines=extra, post=post, real_plans=real_plans(tier), real_cfg="RealTrace_C06.cfg", classify=snapcheck.classify_known(PROP),
        rule="arbitrary in-grid vertex sequences (small point pools force repetition, spikes, zig-zags; rings of 0-2 points; up to 3 rings), "
             "all flag combinations and 1-3 levels; a recorded panic or a call slower than the (loose cubic) bound is a violation")


def replay(path):
    return snapcheck.replay_snap(path)
