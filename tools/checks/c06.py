"""C06 — snapping is total: no panic, no hang.  Spec: SnapTrace.tla (C06_NoPanic, C06_Time)."""
import json

import snapcheck
import vlib

PROP = "C06"


def plans(tier):
    s = vlib.seed()
    if tier == "quick":
        return [dict(gens="arbitrary", variants="base", n=3000, W=4, nmax=16, bias=0.7, seed=s),
                dict(gens="arbitrary,collapse,spiral", variants="base", n=1500, W=8, nmax=24, bias=0.5, seed=s + 1)]
    return [dict(gens="arbitrary", variants="base", n=120000, W=4, nmax=20, bias=0.7, seed=s),
            dict(gens="arbitrary,collapse,spiral", variants="base", n=60000, W=8, nmax=32, bias=0.5, seed=s + 1),
            dict(gens="arbitrary", variants="base", n=60000, W=2, nmax=24, bias=0.9, seed=s + 2)]


def real_plans(tier):
    s = vlib.seed()
    q = tier == "quick"
    return [dict(real=True, gens="arbitrary,spiky", variants="base", n=600 if q else 20000, seed=s + 50, where="interior,origin,far,nl,centre"),
            dict(real=True, sets="WebMercatorQuad,EuropeanETRS89_LAEAQuad,NZTM2000Quad,WorldMercatorWGS84Quad", gens="star", variants="base", n=60 if q else 600, seed=s + 51, where="farband"),
            dict(real=True, sets="WebMercatorQuad,NZTM2000Quad,UPSArcticWGS84Quad,UPSAntarcticWGS84Quad,WorldMercatorWGS84Quad", gens="star,arbitrary", variants="base", n=60 if q else 600, seed=s + 52, where="interior", deep=True)]


def chains_part(tier):
    def extra(drv, d):
        kl, sl, nseq, r = snapcheck.chains_lines(drv, tier)
        v = vlib.Verdict(PROP)

        def on_fail(inv, idx, line):
            raise vlib.Broken("unexpected")
        # the spike removal itself on every sequence: no panic, never longer, only labels of its argument
        cfg = "SPECIFICATION Spec\nINVARIANTS NoPanic OnlyLabelsOfInput NeverLonger\nCHECK_DEADLOCK FALSE\n"
        fails = []
        vlib.validate_records("ChainsTrace", "ChainsTraceC06.cfg", "chains_trace.ndjson", kl, data={"ChainsTraceC06.cfg": cfg},
                              on_fail=lambda inv, idx, line: fails.append((inv, line)), workers=8)
        extra.fails = fails
        extra.nseq = nseq
        extra.states = r.distinct
        return sl
    return extra


def kmp_part(tier, drv, cov):
    """Kmp.tla: kmpTable / kmpSearch / kmpSearchAll as a state machine (index safety, progress, relation to the true search),
    and every vector of it through the real kmpSearchAll (KmpTrace.tla). Returns the anomalies (records that are neither the
    modelled code nor the textbook search, or that panic)."""
    import random
    cfgs = ["MC_Kmp_coded.cfg", "MC_Kmp_kmp.cfg"] + (["MC_Kmp_three.cfg", "MC_Kmp_thorough.cfg"] if tier == "thorough" else ["MC_Kmp_three_quick.cfg"])
    vecs = []
    models = []
    for cfg in cfgs:
        r = vlib.run_tlc("Kmp", cfg, timeout=3600, heap="8g", gc="parallel")
        if not r.ok:
            raise vlib.Broken("design model Kmp/%s fails: %s\n%s" % (cfg, r.violated or r.error, r.trace_text[:2000]))
        models.append({"model": cfg, "states": r.distinct, "transitions": r.generated, "wall_s": round(r.wall, 1)})
        vecs += [{"corpus": x["corpus"], "find": x["find"]} for x in r.vecs]
    if len(vecs) < 30000:
        raise vlib.Broken("expected at least 30000 vectors from MC_Kmp, got %d" % len(vecs))
    # random longer inputs with periodic structure (self-overlapping patterns are where the code deviates)
    rng = random.Random(vlib.seed() * 7 + 3)
    for _ in range(4000 if tier == "quick" else 40000):
        k = rng.randint(2, 4)
        per = [rng.randrange(k) for _ in range(rng.randint(1, 4))]
        find = (per * 6)[:rng.randint(1, 10)]
        if rng.random() < 0.5:
            find[rng.randrange(len(find))] = rng.randrange(k)
        corpus = []
        while len(corpus) < rng.randint(len(find), 40):
            corpus += find[:rng.randint(1, len(find))] if rng.random() < 0.8 else [rng.randrange(k)]
        vecs.append({"corpus": corpus, "find": find})
    p = vlib.run([drv, "kmp-run"], input="\n".join(json.dumps(x) for x in vecs) + "\n", timeout=1800)
    if p.returncode != 0:
        raise vlib.Broken("kmp-run failed: " + p.stderr[-2000:])
    lines = p.stdout.splitlines()
    if len(lines) != len(vecs):
        raise vlib.Broken("kmp-run returned %d records for %d vectors" % (len(lines), len(vecs)))
    anomalies = []
    states = 0
    chunks = [lines[i::8] for i in range(8)]
    import concurrent.futures
    with concurrent.futures.ThreadPoolExecutor(max_workers=8) as ex:
        futs = [ex.submit(vlib.validate_records, "KmpTrace", "KmpTrace.cfg", "kmp_trace.ndjson", c, None, 2, 3600, 3,
                          lambda inv, idx, line: anomalies.append((inv, line))) for c in chunks]
        for f in futs:
            states += f.result()[0]
    cov["kmp_models"] = models
    cov["kmp_vectors_replayed"] = len(lines)
    cov["kmp_anomalies"] = len(anomalies)
    cov["states"] += sum(m["states"] for m in models) + states
    cov["transitions"] += sum(m["transitions"] for m in models)
    cov["traces_validated_against_impl"] += len(lines)
    return anomalies


def run(tier):
    extra = chains_part(tier)

    def post(v, drv, cov):
        anomalies = kmp_part(tier, drv, cov)
        if anomalies and not v.violations and not getattr(extra, "fails", []):
            # kmpSearchAll's inputs are not shown reachable from a polygon: no verdict on C06 from them, but Kmp.tla does not describe this code
            raise vlib.Broken("kmpSearchAll is neither the modelled code nor the textbook search on %d vector(s), e.g. %s (%s): Kmp.tla's design "
                              "results (index safety, progress) do not transfer to this code, and no polygon-level failure was found"
                              % (len(anomalies), anomalies[0][1][:300], anomalies[0][0]))
        for inv, line in getattr(extra, "fails", [])[:5]:
            v.violation("kmpDeduplicate on label sequence %s: %s fails" % (line[:200], inv), {"kind": "kmp-record", "invariant": inv, "record": json.loads(line)}, name="kmp")
        cov["label_sequences"] = getattr(extra, "nseq", 0)
        cov["states"] += getattr(extra, "states", 0)
    return snapcheck.run_snap_property(
        PROP, tier, "SnapTrace_C06.cfg", plans(tier), extra_lines=extra, post=post, real_plans=real_plans(tier), real_cfg="RealTrace_C06.cfg", classify=snapcheck.classify_known(PROP), codesnap=(tier == "thorough"),
        rule="arbitrary in-grid vertex sequences (small point pools force repetition, spikes, zig-zags; rings of 0-2 points; up to 3 rings), "
             "all flag combinations and 1-3 levels; a recorded panic or a call slower than the (loose cubic) bound is a violation")


def replay(path):
    return snapcheck.replay_snap(path)
