"""C16 — tile matrix set documents survive decode/encode; bad ones give errors.  Spec: TmsJson.tla, TmsJsonTrace.tla."""
import json
import os
import time

import vlib
from vlib import Broken

PROP = "C16"


def run(tier):
    t0 = time.time()
    v = vlib.Verdict(PROP)
    cfg = "MC_TmsJson_quick.cfg" if tier == "quick" else "MC_TmsJson_thorough.cfg"
    r = vlib.run_tlc("MC_TmsJson", cfg, timeout=1800)
    if not r.ok or len(r.vecs) < 100:
        raise Broken("MC_TmsJson: %s (%d vectors)\n%s" % (r.violated or r.error, len(r.vecs), r.out[-1500:]))
    vecs = r.vecs
    if tier == "quick":
        # plus a seeded sample of the two-deep documents
        r2 = vlib.run_tlc("MC_TmsJson", "MC_TmsJson_thorough.cfg", timeout=1800)
        if not r2.ok:
            raise Broken("MC_TmsJson depth 2: %s" % (r2.violated or r2.error))
        two = [x for x in r2.vecs if len(x["muts"]) == 2]
        step = max(1, len(two) // 400)
        vecs = vecs + two[(vlib.seed() % step)::step]
    drv = vlib.build_harness()
    d = vlib.scratch("c16")
    try:
        inp = os.path.join(d, "vecs.ndjson")
        out = os.path.join(d, "trace.ndjson")
        with open(inp, "w") as fh:
            fh.write("\n".join(json.dumps(x) for x in vecs) + "\n")
        p = vlib.run([drv, "json-replay", "-in", inp, "-out", out], timeout=3600)
        if p.returncode != 0:
            raise Broken("json-replay failed: " + p.stderr[-2000:])
        lines = open(out).read().splitlines()
    finally:
        vlib.rm(d)

    def on_fail(inv, idx, line):
        o = json.loads(line)
        v.violation("%s with mutations %s: %s fails: decoder outcome %s (%s)" % (o["doc"], json.dumps(o["muts"]), inv, o["outcome"], o.get("msg", "")[:160]),
                    {"kind": "json-record", "invariant": inv, "record": o}, name="json")
    tstates, nrec = vlib.validate_records("TmsJsonTrace", "TmsJsonTrace.cfg", "tmsjson_trace.ndjson", lines, on_fail=on_fail, workers=8, max_fail=8)
    outcomes = {}
    for ln in lines:
        o = json.loads(ln)
        outcomes[o["outcome"]] = outcomes.get(o["outcome"], 0) + 1
    rc = v.finish()
    vlib.write_evidence(PROP, tier, "model_checking", {
        "states": r.distinct + tstates, "transitions": r.generated + tstates, "traces_validated_against_impl": nrec,
        "samples": [json.loads(lines[0]), json.loads(lines[len(lines) // 2])],
        "abstract_documents": len(vecs), "builtin_documents": 14, "decoder_outcomes": outcomes,
        "rule": "TLC enumerates every abstract document up to %s mutations deep (37 document-level (9 of them inside the bounding box) and 41 x 3 tile-matrix-level mutations: delete key, "
                "change type, change value, drop / extend / shorten array); each is applied to all 14 built-in documents; a document in a class the property "
                "lists must give an error, no document may panic, an accepted document must re-encode and re-decode to an equal value with a byte-stable "
                "encoding, and the unmutated built-ins must re-encode to JSON equal to the original" % ("1 (all) and 2 (sample of 400)" if tier == "quick" else "2"),
    }, time.time() - t0, violations=len(v.violations),
        assumptions=["'incomplete' is read as: a required key of the OGC schema is missing", "JSON equality is compared after decoding both texts with encoding/json"])
    return rc


def replay(path):
    o = json.load(open(path))
    drv = vlib.build_harness()
    p = vlib.run([drv, "json-replay"], input=json.dumps({"muts": o["record"]["muts"], "class": ""}) + "\n", check=True)
    print(p.stdout[:3000])
    return run("quick")
