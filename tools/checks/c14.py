"""C14 — only true quadtree tile matrix sets pass validation.  Spec: TmsQuad.tla, TmsQuadTrace.tla."""
import json
import os
import subprocess
import time

import vlib
from vlib import Broken, log

PROP = "C14"


def binary_verdicts(drv, texel, names_maxid):
    """Observe the 14 built-in verdicts through the real binary: validation is the first thing it does."""
    d = vlib.scratch("c14bin")
    out = {}
    try:
        p = vlib.run([drv, "cli-make", "-dir", d, "-seed", "1", "-mode", "tiny"], timeout=120)
        if p.returncode != 0:
            raise Broken("cli-make failed: " + p.stderr[-1000:])
        for name, maxid in names_maxid:
            tgt = os.path.join(d, "o_%s" % name, "t.gpkg")
            os.makedirs(os.path.dirname(tgt), exist_ok=True)
            r = subprocess.run([texel, "-s", os.path.join(d, "src.gpkg"), "-t", tgt, "-tms", name, "-z", "[%d]" % maxid, "-iog"],
                               stdout=subprocess.PIPE, stderr=subprocess.PIPE, text=True, timeout=300)
            # the tiny source lies in the Netherlands: on other grids the polygon may fall outside (ignored with -iog) or
            # the deepest level may exceed 32 quadtree levels (finding F9): only the validation outcome is read here
            if "panic:" in r.stderr and "=== start snapping ===" not in r.stderr:
                out[name] = "panic"
            elif "=== start snapping ===" in r.stderr or r.returncode == 0:
                out[name] = "ok"
            else:
                out[name] = "error"
    finally:
        vlib.rm(d)
    return out


def run(tier):
    t0 = time.time()
    v = vlib.Verdict(PROP)
    d0 = vlib.run_tlc("TmsQuad", "MC_TmsQuad.cfg", timeout=600, want_vecs=False)
    if not d0.ok:
        raise Broken("design model MC_TmsQuad fails: %s\n%s" % (d0.violated or d0.error, d0.trace_text[:2000]))
    drv = vlib.build_harness()
    texel = vlib.build_texel_binary()
    p = vlib.run([drv, "tms-quad-trace"] + (["-deep"] if tier == "thorough" else []), timeout=1200)
    if p.returncode != 0:
        raise Broken("tms-quad-trace failed: " + p.stderr[-2000:])
    recs = [json.loads(x) for x in p.stdout.splitlines() if x.startswith("{")]
    builtin = [r for r in recs if not r["pert"]]
    if len(builtin) != 14:
        raise Broken("expected 14 built-in sets, saw %d" % len(builtin))
    bv = binary_verdicts(drv, texel, [(r["name"], max(m["id"] for m in r["mats"])) for r in builtin])
    for r in builtin:
        r["binary"] = bv.get(r["name"], "n/a")
    lines = [json.dumps(r) for r in recs]

    def on_fail(inv, idx, line):
        r = json.loads(line)
        v.violation("%s%s: %s fails: validation says %s (%s), binary says %s; abstract matrices %s"
                    % (r["name"], (" perturbed by " + r["pert"]) if r["pert"] else "", inv, r["verdict"], r["msg"][:120], r["binary"],
                       json.dumps(r["mats"])[:300]),
                    {"kind": "tmsquad-record", "invariant": inv, "record": r}, name="tms")
    tstates, nrec = vlib.validate_records("TmsQuadTrace", "TmsQuadTrace.cfg", "tmsquad_trace.ndjson", lines, on_fail=on_fail, workers=8, max_fail=8)
    accepted = [r["name"] for r in builtin if r["verdict"] == "ok"]
    rc = v.finish()
    vlib.write_evidence(PROP, tier, "model_checking", {
        "states": d0.distinct + tstates, "transitions": d0.generated + tstates, "traces_validated_against_impl": nrec,
        "samples": [recs[0], recs[min(len(recs) - 1, 40)]],
        "builtin_sets": 14, "accepted": accepted, "perturbations": nrec - 14, "exhaustive": True,
        "binary_verdicts": bv,
        "rule": "all 14 built-in sets; for each accepted set every single-field perturbation (matrix width, matrix height, tile width, tile height, "
                "origin x, origin y, corner, cell size up and down beyond tolerance, id gap, variable widths, dropped matrix) at EVERY tile matrix; "
                "expected verdict computed by TmsQuad!Validate from the harness's abstract projection; never a panic; pixel size within 1e-6 of cellSize/16",
    }, time.time() - t0, violations=len(v.violations),
        assumptions=["the composition DeviationStats-then-IsQuadTree of package main is reproduced by the harness and cross-checked through the real binary for the built-in sets",
                     "cell-size halving is judged with the tool's stated tolerance [1.99, 2.01]"])
    return rc


def replay(path):
    o = json.load(open(path))
    print(json.dumps(o, indent=1)[:3000])
    return run("quick")
