"""C03 — output coordinates are vector-tile pixel centres.  Spec: RealTrace.tla (C03_*), SnapTrace.tla (projection), Grid.tla."""
import json
import time

import snapcheck
import vlib
from vlib import Broken, log

PROP = "C03"
F8_SETS = ["UPSArcticWGS84Quad", "UPSAntarcticWGS84Quad", "EuropeanETRS89_LAEAQuad"]
EXACT_SETS = ["NetherlandsRDNewQuad", "WebMercatorQuad", "NZTM2000Quad", "WorldMercatorWGS84Quad"]


def run(tier):
    t0 = time.time()
    v = vlib.Verdict(PROP)
    design_done = snapcheck.run_design(("levels",), tier)
    drv = vlib.build_harness()
    classify = snapcheck.classify_known(PROP)
    s = vlib.seed()
    n = 700 if tier == "quick" else 20000
    plans_exact = [dict(real=True, sets=",".join(EXACT_SETS), gens="star,hole,spiky,arbitrary", variants="base", n=n, seed=s, where="interior,origin,far,nl")]
    plans_f8 = [dict(real=True, sets=",".join(F8_SETS), gens="star,hole,spiky", variants="base", n=n // 2, seed=s + 1, where="interior,origin,far")]
    plans_deep = [dict(real=True, sets="WebMercatorQuad,NZTM2000Quad,UPSArcticWGS84Quad,WorldMercatorWGS84Quad", gens="star", variants="base", n=max(60, n // 20), seed=s + 2,
                       where="interior", deep=True),
                  # a deep id (level > 32) together with shallower ones, where the deep id works: the shallow ids must still get their centres
                  dict(real=True, sets="WebMercatorQuad,NZTM2000Quad,UPSArcticWGS84Quad,WorldMercatorWGS84Quad", gens="star", variants="base",
                       n=max(80, n // 15), seed=s + 3, where="sw", deep=True)]
    d = vlib.scratch("c03")
    try:
        lx = snapcheck.generate(drv, d, plans_exact)
        lf = snapcheck.generate(drv, d, plans_f8)
        ld = snapcheck.generate(drv, d, plans_deep[:1])
        lsw = snapcheck.generate(drv, d, plans_deep[1:])
    finally:
        vlib.rm(d)
    # synthetic grids: exact centres (ProjectionExact) for tile widths 1..256
    syn = [dict(gens="star,hole,collapse,arbitrary", variants="base", n=600 if tier == "quick" else 20000, W=6, nmax=12, bias=0.5, seed=s + 3)]
    d = vlib.scratch("c03s")
    try:
        ls = snapcheck.generate(drv, d, syn)
    finally:
        vlib.rm(d)
    r_syn = snapcheck.validate(PROP, "SnapTrace_C03.cfg", ls, v, drv)
    # (1) every set: within the deviation, allowing what the documents' rounded cell sizes explain
    r1 = snapcheck.validate(PROP, "RealTrace_C03loose.cfg", lx + lf, v, drv, module="RealTrace")
    # (2) the sets whose documents are exact: strictly within the reported deviation
    r2 = snapcheck.validate(PROP, "RealTrace_C03strict.cfg", lx, v, drv, module="RealTrace")
    # (3) the sets of finding F8: the strict bound is known to fail; a failing record that satisfies (1) is that finding
    known = {f["id"]: f for f in vlib.known_for(PROP)}
    f8_states = 0
    for name in F8_SETS:
        sub = [x for x in lf if json.loads(x)["set"] == name]
        if not sub:
            continue
        r = vlib.run_tlc("RealTrace", "RealTrace_C03strict.cfg", data={"snap_trace.ndjson": "\n".join(sub) + "\n"}, timeout=3600, want_vecs=False)
        f8_states += r.distinct
        if r.ok:
            continue
        if r.violated == "C03_WithinDeviation" and "F8" in known and name in known["F8"]["key"]["sets"]:
            v.known_finding("F8", known["F8"]["what"] + " [" + name + "]")
        elif r.violated:
            import re
            m = re.findall(r"l = (\d+)", r.trace_text)
            rec = json.loads(sub[int(m[-1]) - 1]) if m else {}
            v.violation("%s fails on %s: %s" % (r.violated, name, json.dumps(rec)[:600]), {"kind": "snap-group", "cfg": "RealTrace_C03strict.cfg", "invariant": r.violated, "records": [rec]}, name="c03")
        else:
            raise Broken("RealTrace strict on %s: %s" % (name, r.error))
    # (4) ids deeper than level 32: finding F9 (no coordinates come back at all)
    r4 = snapcheck.validate(PROP, "RealTrace_C06.cfg", ld + lsw, v, drv, classify=classify, module="RealTrace")
    # (5) a deep id together with shallower ones where the deep id works: every returned coordinate within the reported deviation
    r5 = snapcheck.validate(PROP, "RealTrace_C03loose.cfg", [x for x in lsw if json.loads(x)["out"] == "ok"], v, drv, module="RealTrace")
    r4["states"] += r5["states"]
    r4["transitions"] += r5["transitions"]
    allrecs = lx + lf + ld + lsw
    sets = {}
    ids = {}
    npts = 0
    for ln in allrecs:
        o = json.loads(ln)
        sets[o["set"]] = sets.get(o["set"], 0) + 1
        for e in o["lv"]:
            ids.setdefault(o["set"], set()).add(e["z"])
        npts += len(o["pts"])
    rc = v.finish()
    vlib.write_evidence(PROP, tier, "model_checking", {
        "states": r1["states"] + r2["states"] + r4["states"] + f8_states + r_syn["states"],
        "transitions": r1["transitions"] + r2["transitions"] + r4["transitions"] + r_syn["transitions"],
        "traces_validated_against_impl": len(allrecs) + len(ls),
        "samples": [json.loads(lx[0]), json.loads(lf[0])],
        "records_per_set": sets, "tile_matrix_ids_exercised": {k: sorted(x) for k, x in ids.items()}, "coordinates_judged": npts,
        "synthetic_records": len(ls), "design_models": design_done,
        "rule": "all 7 built-in sets accepted by validation; 1-3 random ids per call out of 0..20 (plus ids beyond level 32); polygons at random places incl. the origin "
                "corner and near the far corner; per returned coordinate the harness computes with exact rationals from the document the distance to the ideal pixel "
                "centre, 2 ulp, and the document-inconsistency term; TLC compares with the deviation DeviationStats reported",
    }, time.time() - t0, violations=len(v.violations),
        assumptions=["index, offset and ulp are computed by the harness with math/big from the JSON document (not from texel)",
                     "distances are compared in 1e-9 units, offsets rounded down and bounds rounded up"])
    return rc


def replay(path):
    return snapcheck.replay_snap(path)
