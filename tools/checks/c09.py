"""C09 — polygons reaching outside the grid are rejected, never silently moved.  Spec: Grid.tla (InGrid, Outcome), MC_Border.tla."""
import json
import time

import vlib
from vlib import Broken, log

PROP = "C09"


def run(tier):
    t0 = time.time()
    v = vlib.Verdict(PROP)
    drv = vlib.build_harness()
    r = vlib.run_tlc("MC_Border", "MC_Border.cfg", timeout=1800)
    if not r.ok:
        raise Broken("MC_Border: %s\n%s" % (r.violated or r.error, r.out[-2000:]))
    if len(r.vecs) < 30000:
        raise Broken("MC_Border produced only %d vectors" % len(r.vecs))
    summary, mism = vlib.replay_vectors(drv, ["border-replay", "-N", "8", "-S", "4", "-tier", tier], r.vecs)
    for m in mism[:10]:
        v.violation("grid %s z=%s: %s vertex %s (inside=%s, ignore=%s): SnapPolygon -> %s, with coarser tile matrices requested as well -> %s (specified %s), InsertPoint -> %s (specified %s)"
                    % (m["grid"], m["z"], m["vec"].get("shape"), m["ring"][m["vec"]["k"]], m["vec"]["inside"], m["vec"]["ig"], m["snap_outcome"],
                       m.get("snap_outcome_multi"), m["vec"]["expect"], m["insert_outcome"], m["want_insert"]),
                    {"kind": "border-vector", "vec": m["vec"], "grid": m["grid"], "z": m["z"], "ring": m["ring"]}, name="border")
    if summary["bad"] > 10:
        log("  (%d replays differ in total)" % summary["bad"])
    # "by any amount" below the quarter-pixel lattice, on the built-in grids that do not divide evenly (BorderFineTrace.tla)
    p = vlib.run([drv, "border-fine"], timeout=1800)
    if p.returncode != 0:
        raise Broken("border-fine failed: " + p.stderr[-2000:])
    fine = [x for x in p.stdout.splitlines() if x.startswith("{")]
    if len(fine) < 500:
        raise Broken("border-fine produced only %d records" % len(fine))

    def on_fail(inv, idx, line):
        rec = json.loads(line)
        v.violation("%s tile matrix %d: a vertex %d units of 1e-10 (pixel = %d units) outside the %s border, ignore=%s: SnapPolygon -> %s (%s)"
                    % (rec["set"], rec["z"], rec["d"], rec["pix"], rec["side"], rec["ig"], rec["outcome"], inv),
                    {"kind": "border-fine-record", "invariant": inv, "record": rec}, name="fine")
    fstates, _ = vlib.validate_records("BorderFineTrace", "BorderFineTrace.cfg", "borderfine_trace.ndjson", fine, on_fail=on_fail, workers=4)
    rc = v.finish()
    outside = sum(1 for x in r.vecs if not x["inside"])
    vlib.write_evidence(PROP, tier, "model_checking", {
        "states": r.distinct, "transitions": r.generated, "traces_validated_against_impl": summary["n"],
        "samples": [r.vecs[0], r.vecs[len(r.vecs) // 2]],
        "vectors": len(r.vecs), "vectors_outside": outside, "replays": summary["n"], "replay_mismatches": summary["bad"],
        "skipped_inexact_float": summary["skipped_inexact"], "grids": summary["grids"], "exhaustive": True,
        "fine_records_on_built_in_grids": len(fine), "fine_states": fstates,
        "rule": "every lattice point (quarter pixel) within 2 pixels of any border of an 8x8-pixel model grid, inside and outside, "
                "x position of the vertex in the ring x {plain triangle, shell followed by an in-grid hole, hole after an in-grid shell} x ignore flag; distances are measured from the nearest border and replayed on each grid; "
                "a replay is skipped only when no float64 converts to the intended 1e-10 integer",
    }, time.time() - t0, violations=len(v.violations),
        assumptions=["'any amount' is quantified at multiples of a quarter of the deepest pixel (>= 2^-10 units), and on 29 (set, tile matrix) pairs of the built-in grids at 2e-9 units .. 1/16 pixel outside each border (border-fine)",
                     "on grids whose extent does not divide evenly only the only-if direction is asserted (F10 belongs to C06)"])
    return rc


def replay(path):
    o = json.load(open(path))
    drv = vlib.build_harness()
    if o.get("kind") == "border-fine-record":
        p = vlib.run([drv, "border-fine"], timeout=1800)
        want = o["record"]
        for x in p.stdout.splitlines():
            if x.startswith("{"):
                r = json.loads(x)
                if all(r[k] == want[k] for k in ("set", "z", "side", "ig")) and abs(r["d"] - want["d"]) <= 1:
                    print(x)
                    return 0 if r["outcome"] == ("empty" if r["ig"] else "panic-outside-grid") else 1
        return 2
    summary, mism = vlib.replay_vectors(drv, ["border-replay", "-N", "8", "-S", "4", "-tier", "thorough"], [o["vec"]])
    for m in mism:
        print(json.dumps(m))
    return 1 if mism else 0
