"""C09 — polygons reaching outside the grid are rejected, never silently moved.  Spec: Grid.tla (InGrid, Outcome), MC_Border.tla."""
import json
import time

import vlib
from vlib import Broken, log

PROP = "C09"


def run(tier):
    t0 = time.time()
    v = vlib.Verdict(PROP)
    drv = vlib.build_harness()
    r = vlib.run_tlc("MC_Border", "MC_Border.cfg", timeout=1800)
    if not r.ok:
        raise Broken("MC_Border: %s\n%s" % (r.violated or r.error, r.out[-2000:]))
    if len(r.vecs) < 30000:
        raise Broken("MC_Border produced only %d vectors" % len(r.vecs))
    summary, mism = vlib.replay_vectors(drv, ["border-replay", "-N", "8", "-S", "4", "-tier", tier], r.vecs)
    for m in mism[:10]:
        v.violation("grid %s z=%s: %s vertex %s (inside=%s, ignore=%s): SnapPolygon -> %s, with coarser tile matrices requested as well -> %s (specified %s), InsertPoint -> %s (specified %s)"
                    % (m["grid"], m["z"], m["vec"].get("shape"), m["ring"][m["vec"]["k"]], m["vec"]["inside"], m["vec"]["ig"], m["snap_outcome"],
                       m.get("snap_outcome_multi"), m["vec"]["expect"], m["insert_outcome"], m["want_insert"]),
                    {"kind": "border-vector", "vec": m["vec"], "grid": m["grid"], "z": m["z"], "ring": m["ring"]}, name="border")
    if summary["bad"] > 10:
        log("  (%d replays differ in total)" % summary["bad"])
    rc = v.finish()
    outside = sum(1 for x in r.vecs if not x["inside"])
    vlib.write_evidence(PROP, tier, "model_checking", {
        "states": r.distinct, "transitions": r.generated, "traces_validated_against_impl": summary["n"],
        "samples": [r.vecs[0], r.vecs[len(r.vecs) // 2]],
        "vectors": len(r.vecs), "vectors_outside": outside, "replays": summary["n"], "replay_mismatches": summary["bad"],
        "skipped_inexact_float": summary["skipped_inexact"], "grids": summary["grids"], "exhaustive": True,
        "rule": "every lattice point (quarter pixel) within 2 pixels of any border of an 8x8-pixel model grid, inside and outside, "
                "x position of the vertex in the ring x {plain triangle, shell followed by an in-grid hole, hole after an in-grid shell} x ignore flag; distances are measured from the nearest border and replayed on each grid; "
                "a replay is skipped only when no float64 converts to the intended 1e-10 integer",
    }, time.time() - t0, violations=len(v.violations),
        assumptions=["'any amount' is quantified at multiples of a quarter of the deepest pixel (>= 2^-10 units)",
                     "on grids whose extent does not divide evenly only the only-if direction is asserted (F10 belongs to C06)"])
    return rc


def replay(path):
    o = json.load(open(path))
    drv = vlib.build_harness()
    summary, mism = vlib.replay_vectors(drv, ["border-replay", "-N", "8", "-S", "4", "-tier", "thorough"], [o["vec"]])
    for m in mism:
        print(json.dumps(m))
    return 1 if mism else 0
