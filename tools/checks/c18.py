"""C18 — moderately collapsing polygons are reduced without inventing geometry.  Spec: SnapTrace.tla (C18_ExactRegime)."""
import snapcheck
import vlib

PROP = "C18"


def plans(tier):
    s = vlib.seed()
    if tier == "quick":
        return [dict(gens="collapse,hole,star,rect", variants="base", n=1800, W=6, nmax=12, bias=0.6, seed=s),
                dict(gens="rect", variants="base", n=500, W=10, nmax=12, bias=0.6, seed=s + 3),
                dict(gens="collapse", variants="base", n=700, W=8, nmax=12, bias=0.6, seed=s + 1)]
    return [dict(gens="collapse,hole,star,rect", variants="base", n=50000, W=6, nmax=14, bias=0.6, seed=s),
            dict(gens="rect", variants="base", n=15000, W=10, nmax=12, bias=0.6, seed=s + 3),
            dict(gens="collapse", variants="base", n=30000, W=8, nmax=12, bias=0.6, seed=s + 1),
            dict(gens="hole,collapse", variants="base", n=20000, W=5, nmax=16, bias=0.8, seed=s + 2)]


def run(tier):
    def post(v, drv, cov):
        st = cov["record_stats"]
        if not v.violations and st["atmosttwice_and_repeats"] < 50:   # (statistics are partial once a record has failed)
            raise vlib.Broken("vacuous: only %d (record, level) pairs are in the <=2-visit regime AND have a repeated centre" % st["atmosttwice_and_repeats"])
    return snapcheck.run_snap_property(
        PROP, tier, "SnapTrace_C18.cfg", plans(tier),
        steps_plans=[dict(gens="collapse,hole,star,rect,arbitrary", variants="base", n=1200 if tier == "quick" else 30000, W=6, nmax=12, bias=0.6, seed=vlib.seed() + 70)],
        steps_cfg="SnapSteps_C18.cfg",
        rule="collapse-prone valid polygons (slivers, combs, pinched necks, thin frames with a hole, serpentines) at 1-3 levels; "
             "antecedent (no centre visited more than twice) evaluated by TLC on the boundary it routes itself; non-trivial = antecedent "
             "holds and some centre is visited twice (record_stats.atmosttwice_and_repeats)",
        min_valid_frac=0.3, post=post)


def replay(path):
    return snapcheck.replay_snap(path)
