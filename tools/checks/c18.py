"""C18 — moderately collapsing polygons are reduced without inventing geometry.  Spec: SnapTrace.tla (C18_ExactRegime)."""
import snapcheck
import vlib

PROP = "C18"


def plans(tier):
    s = vlib.seed()
    if tier == "quick":
        return [dict(gens="collapse,hole,star,rect", variants="base", n=1800, W=6, nmax=12, bias=0.6, seed=s),
                dict(gens="rect", variants="base", n=500, W=10, nmax=12, bias=0.6, seed=s + 3),
                dict(gens="rect", variants="base", n=600, W=12, nmax=12, bias=0.6, seed=s + 6),     # room for an island with a courtyard
                dict(gens="collapse", variants="base", n=700, W=8, nmax=12, bias=0.6, seed=s + 1),
                dict(gens="court", variants="base", n=500, W=6, nmax=12, bias=0.6, seed=s + 4),
                dict(gens="court", variants="base", n=500, W=12, nmax=12, bias=0.6, seed=s + 5)]    # room for a hole that touches nothing
    return [dict(gens="collapse,hole,star,rect", variants="base", n=50000, W=6, nmax=14, bias=0.6, seed=s),
            dict(gens="rect", variants="base", n=15000, W=10, nmax=12, bias=0.6, seed=s + 3),
            dict(gens="rect", variants="base", n=8000, W=13, nmax=12, bias=0.6, seed=s + 6),
            dict(gens="collapse", variants="base", n=30000, W=8, nmax=12, bias=0.6, seed=s + 1),
            dict(gens="hole,collapse", variants="base", n=20000, W=5, nmax=16, bias=0.8, seed=s + 2),
            dict(gens="court", variants="base", n=15000, W=6, nmax=12, bias=0.6, seed=s + 4),
            dict(gens="court", variants="base", n=6000, W=12, nmax=12, bias=0.6, seed=s + 5)]


def assemble_part(tier, drv, cov):
    """Assemble.tla: the code's own assembly stage (dedupeInnersOuters + matchInnersToPolygons) transcribed; TLC enumerates loop
    configurations (nested, touching, disjoint boxes) and shows the transcription right on the regular ones; every configuration
    is replayed through the real functions, which must return what the transcription computes (AssembleTrace.tla)."""
    import concurrent.futures
    import json
    cfg = "MC_Assemble_quick.cfg" if tier == "quick" else "MC_Assemble_thorough.cfg"
    r = vlib.run_tlc("Assemble", cfg, timeout=7200, heap="8g", gc="parallel")
    if not r.ok:
        raise vlib.Broken("design model Assemble/%s fails: %s\n%s" % (cfg, r.violated or r.error, r.trace_text[:2000]))
    if len(r.vecs) < 15000:
        raise vlib.Broken("expected at least 15000 loop configurations from MC_Assemble, got %d" % len(r.vecs))
    r2 = vlib.run_tlc("Assemble", "MC_Assemble_dups.cfg", timeout=3600, heap="8g", gc="parallel")
    if not r2.ok or len(r2.vecs) < 2000:
        raise vlib.Broken("design model Assemble/MC_Assemble_dups.cfg fails: %s (%d configurations)" % (r2.violated or r2.error, len(r2.vecs)))
    r.vecs += r2.vecs + r2.vecs          # (twice: an order-dependent deletion shows in one of two runs)
    r.distinct += r2.distinct
    p = vlib.run([drv, "assemble-replay"], input="\n".join(json.dumps({"os": x["os"], "is": x["is"]}) for x in r.vecs) + "\n", timeout=1800)
    if p.returncode != 0:
        raise vlib.Broken("assemble-replay failed: " + p.stderr[-2000:])
    lines = p.stdout.splitlines()
    anomalies = []
    states = 0
    chunks = [lines[i::8] for i in range(8)]
    with concurrent.futures.ThreadPoolExecutor(max_workers=8) as ex:
        futs = [ex.submit(vlib.validate_records, "AssembleTrace", "AssembleTrace.cfg", "assemble_trace.ndjson", c, None, 2, 3600, 3,
                          lambda inv, idx, line: anomalies.append((inv, line))) for c in chunks]
        for f in futs:
            states += f.result()[0]
    cov["assemble_model"] = {"model": cfg, "states": r.distinct, "wall_s": round(r.wall, 1),
                             "regular_inputs": sum(1 for x in r.vecs if x["regular"]),
                             "double_wound_inputs": sum(1 for x in r.vecs if x["twice"]),
                             "double_wound_with_wrong_coverage_or_hole": sum(1 for x in r.vecs if x["twice"] and not (x["cover_ok"] and x["holes_ok"]))}
    cov["assemble_configurations_replayed"] = len(lines)
    cov["assemble_anomalies"] = len(anomalies)
    cov["states"] += r.distinct + states
    cov["traces_validated_against_impl"] += len(lines)
    return anomalies


def run(tier):
    def post(v, drv, cov):
        anomalies = assemble_part(tier, drv, cov)
        if anomalies and not v.violations:
            # the loop configurations are not shown reachable from a polygon: no verdict on C18 from them, but Assemble.tla does not describe this code
            raise vlib.Broken("the real assembly stage differs from Assemble.tla on %d configuration(s), e.g. %s (%s): the design results "
                              "do not transfer to this code, and no polygon-level failure was found" % (len(anomalies), anomalies[0][1][:400], anomalies[0][0]))
        st = cov["record_stats"]
        if not v.violations and st["atmosttwice_and_repeats"] < 50:   # (statistics are partial once a record has failed)
            raise vlib.Broken("vacuous: only %d (record, level) pairs are in the <=2-visit regime AND have a repeated centre" % st["atmosttwice_and_repeats"])
    return snapcheck.run_snap_property(
        PROP, tier, "SnapTrace_C18.cfg", plans(tier),
        steps_plans=[dict(gens="collapse,hole,star,rect,arbitrary", variants="base", n=1200 if tier == "quick" else 30000, W=6, nmax=12, bias=0.6, seed=vlib.seed() + 70)],
        steps_cfg="SnapSteps_C18.cfg",
        rule="collapse-prone valid polygons (slivers, combs, pinched necks, thin frames with a hole, serpentines) at 1-3 levels; "
             "antecedent (no centre visited more than twice) evaluated by TLC on the boundary it routes itself; non-trivial = antecedent "
             "holds and some centre is visited twice (record_stats.atmosttwice_and_repeats)",
        min_valid_frac=0.3, post=post, codesnap=(tier == "thorough"))


def replay(path):
    return snapcheck.replay_snap(path)
