"""C04 — shape fidelity.  Spec: SnapTrace.tla (C04_VerticesAreCentres, C04_EdgesNearInput, C04_Coverage)."""
import json

import snapcheck
import vlib

PROP = "C04"


def plans(tier):
    s = vlib.seed()
    if tier == "quick":
        return [dict(gens="star,hole,collapse,rect", variants="base", n=650, W=8, nmax=12, bias=0.5, seed=s),
                dict(gens="star,hole", variants="base", n=300, W=10, nmax=10, bias=0.4, seed=s + 1),
                dict(gens="collapse", variants="base", n=300, W=16, nmax=10, bias=0.4, seed=s + 2),
                dict(gens="spiral", variants="base", n=60, W=8, nmax=10, bias=0.4, seed=s + 4),
                dict(gens="court", variants="base", n=250, W=6, nmax=10, bias=0.4, seed=s + 6),
                # holes 2-4 pixels wide, two out of three inside the bounding box of one sloped shell edge: a filled hole shows beyond a pixel from every boundary
                dict(gens="courtbig", variants="base", n=800, W=16, nmax=10, bias=0.4, seed=s + 8),
                dict(gens="rect", variants="base", n=400, W=12, nmax=10, bias=0.4, seed=s + 7),
                dict(gens="star,hole", variants="base", n=4000, W=3, nmax=20, bias=0.9, seed=s + 5)]     # dense: nearly every pixel of the window occupied
    return [dict(gens="star,hole,collapse,rect", variants="base", n=16000, W=8, nmax=16, bias=0.5, seed=s),
            dict(gens="star,hole", variants="base", n=6000, W=10, nmax=12, bias=0.4, seed=s + 1),
            dict(gens="collapse,hole", variants="base", n=6000, W=6, nmax=12, bias=0.7, seed=s + 2),
            dict(gens="collapse", variants="base", n=6000, W=16, nmax=10, bias=0.4, seed=s + 3),
            dict(gens="spiral", variants="base", n=400, W=10, nmax=10, bias=0.4, seed=s + 4),
            dict(gens="court", variants="base", n=8000, W=6, nmax=10, bias=0.4, seed=s + 6),
            dict(gens="courtbig", variants="base", n=4000, W=16, nmax=10, bias=0.4, seed=s + 8)]


def run(tier):
    return snapcheck.run_snap_property(
        PROP, tier, "SnapTrace_C04.cfg", plans(tier),
        rule="valid lattice polygons (with holes, slivers, combs, pinches, frames, multi-turn spirals); per tile matrix: every output vertex is the centre of "
             "an input vertex's pixel; end points and mid point of every output edge within half a pixel (Chebyshev, exact closed-box test) "
             "of the input boundary; every pixel centre and corner of the window +-2 pixels farther than one pixel from the input boundary "
             "is covered by the output iff covered by the input",
        min_valid_frac=0.15, classify=classify, codesnap=True)


def classify(inv, rec, grp):
    known = {f["id"]: f for f in vlib.known_for(PROP)}
    if "F13" in known and inv == "C04_Coverage" and "step" not in rec:
        lv = snapcheck.f13_key_matches(rec)
        if lv and snapcheck.codesnap_agrees(rec):     # ... and the code still returns what the pinned code returned for this input
            return ("F13", known["F13"]["what"])
    return None


def replay(path):
    return snapcheck.replay_snap(path)
