"""C13 — the command line tool writes, per tile matrix, what the library computes.  Spec: Cli.tla, CliPath.tla, CliTrace.tla."""
import concurrent.futures
import json
import os
import subprocess
import time

import vlib
from vlib import Broken, log

PROP = "C13"


def run_case(a):
    drv, texel, d, seed, mode, target = a
    os.makedirs(d, exist_ok=True)
    args = [drv, "cli-make", "-dir", d, "-seed", str(seed), "-mode", mode]
    if target:
        args += ["-target", target]
    p = vlib.run(args, timeout=300)
    if p.returncode != 0:
        raise Broken("cli-make failed: " + p.stderr[-2000:])
    case = json.loads(p.stdout.strip().splitlines()[-1])
    casef = os.path.join(d, "case.json")
    with open(casef, "w") as fh:
        json.dump(case, fh)
    # the same configuration reaches the tool in one of three ways (main.go:44-113): short aliases, long flag names, environment variables
    src, tgt = os.path.join(d, "src.gpkg"), os.path.join(d, "out", case["target"])
    env = dict(os.environ)
    for k in ("SOURCE_GPKG", "TARGET_GPKG", "OVERWRITE", "TILEMATRIXSET", "TILEMATRICES", "PAGESIZE", "KEEPPOINTSANDLINES", "IGNOREOUTSIDEGRID", "REVERSEWINDINGORDER"):
        env.pop(k, None)
    how = ("alias", "long", "env")[seed % 3]
    bools = (("overwrite", "o", "overwrite", "OVERWRITE"), ("keep", "pl", "keeppointsandlines", "KEEPPOINTSANDLINES"),
             ("iog", "iog", "ignoreoutsidegrid", "IGNOREOUTSIDEGRID"), ("rwo", "rwo", "reversewindingorder", "REVERSEWINDINGORDER"))
    if how == "alias":
        cmd = [texel, "-s", src, "-t", tgt, "-tms", case["tms"], "-z", json.dumps(case["ids"]), "-p", str(case["pagesize"])]
        cmd += ["-" + b[1] for b in bools if case[b[0]]]
    elif how == "long":
        cmd = [texel, "--sourceGpkg", src, "--targetGpkg", tgt, "--tilematrixset", case["tms"], "--tilematrices", json.dumps(case["ids"]),
               "--pagesize", str(case["pagesize"])]
        cmd += ["--" + b[2] for b in bools if case[b[0]]]
    else:
        cmd = [texel]
        env.update({"SOURCE_GPKG": src, "TARGET_GPKG": tgt, "TILEMATRIXSET": case["tms"], "TILEMATRICES": json.dumps(case["ids"]),
                    "PAGESIZE": str(case["pagesize"])})
        for b in bools:
            if case[b[0]]:
                env[b[3]] = "true"
    env["GORACE"] = "halt_on_error=0"
    try:
        r = subprocess.run(cmd, stdout=subprocess.PIPE, stderr=subprocess.PIPE, text=True, timeout=600, env=env)
        rc, err = r.returncode, r.stderr
    except subprocess.TimeoutExpired:
        rc, err = -9, "TIMEOUT"
    panicked = "panic:" in err or "goroutine " in err
    o = vlib.run([drv, "cli-observe", "-dir", d, "-case", casef, "-exit", str(rc)] + (["-panic"] if panicked else []), timeout=600)
    if o.returncode != 0:
        raise Broken("cli-observe failed: " + o.stderr[-2000:])
    rec = json.loads(o.stdout.strip().splitlines()[-1])
    import re
    m = re.search(r"\[WARNING\] \(largest\) deviation is larger than 1 tile pixel \(([0-9.]+) units\) on the deepest matrix \((\d+)\)", err)
    rec["dev"]["warned"] = bool(m)
    rec["dev"]["micro"] = int(round(float(m.group(1)) * 1e6)) if m else 0
    rec["dev"]["matrix"] = int(m.group(2)) if m else -1
    rec["stderr_tail"] = err[-300:]
    rec["races"] = err.count("WARNING: DATA RACE")
    rec["how"] = how
    return rec


def run(tier):
    t0 = time.time()
    v = vlib.Verdict(PROP)
    # design
    dstates = dtrans = 0
    for c in ("MC_Cli.cfg", "MC_Cli_invalid.cfg", "MC_Cli_outside.cfg"):
        r = vlib.run_tlc("MC_Cli", c, timeout=600, want_vecs=False)
        if not r.ok:
            raise Broken("design model %s fails: %s\n%s" % (c, r.violated or r.error, r.trace_text[:2000]))
        dstates += r.distinct
        dtrans += r.generated
    pv = vlib.run_tlc("MC_CliPath", "MC_CliPath.cfg", timeout=600)
    if not pv.ok or len(pv.vecs) < 1000:
        raise Broken("MC_CliPath: %s (%d vectors)" % (pv.violated or pv.error, len(pv.vecs)))
    dstates += pv.distinct
    drv = vlib.build_harness()
    texel = vlib.build_texel_binary()
    n = 40 if tier == "quick" else 1500
    npaths = 24 if tier == "quick" else 300
    sd = vlib.seed()
    d = vlib.scratch("c13")
    recs = []
    try:
        jobs = [(drv, texel, os.path.join(d, "n%d" % i), sd * 100003 + i, "normal", "") for i in range(n)]
        jobs += [(drv, texel, os.path.join(d, "b%d" % i), (sd * 100003 + 7000) // 32 * 32 + i, "badtms", "") for i in range(12 if tier == "quick" else 48)]
        # path vectors from TLC: spread deterministically over the 2028 safe paths
        step = max(1, len(pv.vecs) // npaths)
        pvecs = pv.vecs[(sd % step)::step][:npaths]
        jobs += [(drv, texel, os.path.join(d, "p%d" % i), sd * 100003 + 9000 + i, "tiny", x["path"]) for i, x in enumerate(pvecs)]
        with concurrent.futures.ThreadPoolExecutor(max_workers=8) as ex:
            recs = list(ex.map(run_case, jobs))
    finally:
        vlib.rm(d)
    lines = [json.dumps(r) for r in recs]

    def on_fail(inv, idx, line):
        r = json.loads(line)
        c = r["case"]
        v.violation("texel %s: %s fails: exit=%s files=%s (flags: ids=%s p=%s o=%s pl=%s iog=%s rwo=%s target=%s pre=%s) stderr: %s"
                    % (c["tms"], inv, r["exit"], r["file_names"], c["ids"], c["pagesize"], c["overwrite"], c["keep"], c["iog"], c["rwo"],
                       c["target"], c["pre"], r.get("stderr_tail", "")[-200:].replace("\n", " | ")),
                    {"kind": "cli-case", "invariant": inv, "record": r}, name="cli")
    tstates, nrec = vlib.validate_records("CliTrace", "CliTrace.cfg", "cli_trace.ndjson", lines, on_fail=on_fail, workers=8)
    ok_runs = sum(1 for r in recs if r["exit"] == 0)
    rc = v.finish()
    vlib.write_evidence(PROP, tier, "model_checking", {
        "states": dstates + tstates, "transitions": dtrans + tstates, "traces_validated_against_impl": len(recs),
        "samples": [{k: recs[0][k] for k in ("case", "exit", "file_names", "src")}],
        "runs": len(recs), "runs_exit0": ok_runs,
        "configured_through": {h: sum(1 for r in recs if r.get("how") == h) for h in ("alias", "long", "env")}, "runs_rejected_tms": sum(1 for r in recs if not r["case"]["valid_tms"]),
        "runs_with_preexisting_targets": sum(1 for r in recs if r["case"]["pre"]), "path_vectors_replayed": len(pvecs),
        "path_vectors_total": len(pv.vecs),
        "rule": "random source GeoPackages (1-3 tables: polygon / multipolygon / point / linestring, 0-12 rows, NULLs, first table with three attribute "
                "columns; polygons that collapse, split, carry holes or lie outside the RD grid) x 1-3 ids x page sizes x keep/ignore/reverse x overwrite x "
                "pre-existing junk targets; plus non-quadtree / unknown tile matrix sets; plus TLC's safe target paths (MC_CliPath) each run through the binary",
    }, time.time() - t0, violations=len(v.violations),
        assumptions=["the library oracle is a direct call of snap.SnapPolygon with all requested ids and the same flags (as the property names it)",
                     "libspatialite replaced by the verif-tagged SQLite stub compiled into the binary"])
    return rc


def replay(path):
    o = json.load(open(path))
    c = o["record"]["case"]
    drv = vlib.build_harness()
    texel = vlib.build_texel_binary()
    d = vlib.scratch("c13r")
    try:
        mode = "normal" if c["valid_tms"] else "badtms"
        rec = run_case((drv, texel, d, c["seed"], mode, ""))
    finally:
        vlib.rm(d)
    fails = []
    vlib.validate_records("CliTrace", "CliTrace.cfg", "cli_trace.ndjson", [json.dumps(rec)], on_fail=lambda inv, i, l: fails.append(inv))
    print(json.dumps(rec)[:3000])
    print("REJECTED: %s" % fails if fails else "accepted")
    return 1 if fails else 0
