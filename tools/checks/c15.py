"""C15 — tile addressing is self-consistent in x,y order for every built-in set.  Spec: TileAddr.tla, TileAddrTrace.tla."""
import json
import time

import vlib
from vlib import Broken

PROP = "C15"


def run(tier):
    t0 = time.time()
    v = vlib.Verdict(PROP)
    d0 = vlib.run_tlc("TileAddr", "MC_TileAddr.cfg", timeout=600, want_vecs=False)
    if not d0.ok:
        raise Broken("design model MC_TileAddr fails: %s\n%s" % (d0.violated or d0.error, d0.trace_text[:2000]))
    # unbounded: the same rules for EVERY matrix size, origin, tile and interior point (TileAddrInt.tla, Apalache, length 0)
    apalache = vlib.run_apalache("TileAddrInt", "Init", "Inv", 0)
    drv = vlib.build_harness()
    p = vlib.run([drv, "tms-addr-trace", "-seed", str(vlib.seed()), "-samples", "6" if tier == "quick" else "250"], timeout=1800)
    if p.returncode != 0:
        raise Broken("tms-addr-trace failed: " + p.stderr[-2000:])
    lines = [x for x in p.stdout.splitlines() if x.startswith("{")]
    errs = [x for x in lines if '"error"' in x]
    lines = [x for x in lines if '"error"' not in x]
    for e in errs[:5]:
        v.violation("axis order of a built-in set cannot be determined: " + e[:300], {"kind": "tileaddr-error", "record": json.loads(e)}, name="addr")

    def on_fail(inv, idx, line):
        r = json.loads(line)
        v.violation("%s matrix %s (%s, %sx%s): %s fails for tile %s fraction %s: FromNative gave %s"
                    % (r["set"], r["z"], r["corner"], r["w"], r["h"], inv, r["tile"], r["frac"], r["from"]),
                    {"kind": "tileaddr-record", "invariant": inv, "record": r}, name="addr")
    tstates, nrec = vlib.validate_records("TileAddrTrace", "TileAddrTrace.cfg", "tileaddr_trace.ndjson", lines, on_fail=on_fail, workers=8)
    sets = sorted({json.loads(x)["set"] for x in lines[::50]})
    rc = v.finish()
    vlib.write_evidence(PROP, tier, "model_checking", {
        "states": d0.distinct + tstates, "transitions": d0.generated + tstates, "traces_validated_against_impl": nrec,
        "samples": [json.loads(lines[0]), json.loads(lines[-1])], "sets_seen": sets, "exhaustive": False,
        "apalache": {"module": "TileAddrInt.tla", "obligation": "Init => Consistent /\\ OutsideNoTile /\\ BBoxFromCorners (length 0)",
                     "bounds": "none: every W, H >= 1, every integer origin, both corner conventions, every tile and interior point", "wall_s": apalache},
        "rule": "every built-in set (+ the repository's bottom-left/lat-lon test document + synthetic bottom-left and top-left grids) x every matrix without "
                "variable widths x 4 corner tiles, 4 border tiles and sampled interior tiles x 5 interior quarter-fraction points; 6 outside points per matrix; "
                "corner position compared with origin + index * tile size in x,y order (16 ulp + 1e-8 tolerance: the API rounds to 9 decimals)",
    }, time.time() - t0, violations=len(v.violations),
        assumptions=["float comparisons use a tolerance of 16 ulp + 1e-8 (measured noise of the 9-decimal rounding at 1e7 magnitude: 8 ulp)"])
    return rc


def replay(path):
    print(open(path).read()[:3000])
    return run("quick")
