"""C12 — target GeoPackage complete and consistent for any page size.  Spec: Paging.tla, PagingTrace.tla."""
import concurrent.futures
import json
import os
import re
import time

import vlib
from vlib import Broken, log

PROP = "C12"


def _case(a):
    drv, p, c, seed, gt, d = a
    os.makedirs(d, exist_ok=True)
    r = vlib.run([drv, "gpkg-case", "-dir", d, "-p", str(p), "-count", str(c), "-seed", str(seed), "-gtype", gt], timeout=300)
    lines = [x for x in r.stdout.splitlines() if x.startswith("{")]
    if r.returncode != 0 or not lines or '"e":"Done"' not in lines[-1]:
        # texel's gpkg code ends the process with log.Fatal on errors: record it as an observation of this case
        lines.append(json.dumps({"e": "Abort", "rc": r.returncode, "stderr": r.stderr[-400:]}))
    return (p, c, gt, seed), lines


def run(tier):
    t0 = time.time()
    v = vlib.Verdict(PROP)
    d0 = vlib.run_tlc("Paging", "MC_Paging.cfg", timeout=1800, want_vecs=False)
    if not d0.ok:
        raise Broken("design model MC_Paging fails: %s\n%s" % (d0.violated or d0.error, d0.trace_text[:2000]))
    # unbounded: Apalache proves the inductive invariant of the counting skeleton (PagingInt.tla, which Paging.tla refines) for
    # EVERY page size and feature count: Init => IndInv, IndInv /\ Next => IndInv', IndInv => Complete
    apalache = [vlib.run_apalache("PagingInt", "Init", "IndInv", 0), vlib.run_apalache("PagingInt", "IndInit", "IndInv", 1),
                vlib.run_apalache("PagingInt", "IndInit", "Complete", 0)]
    drv = vlib.build_harness()
    maxp = 5 if tier == "quick" else 16
    gts = ["polygon", "multipolygon", "point", "linestring", "multipoint", "multilinestring", "geometrycollection"]
    cases = []
    k = 0
    for p in range(1, maxp + 1):
        for c in range(0, 3 * p + 2):
            for gt in (gts if tier == "thorough" else [gts[k % len(gts)]]):
                cases.append((p, c, gt))
                k += 1
    if tier == "thorough":
        cases += [(1000, 37, "polygon"), (7, 700, "polygon"), (64, 193, "multipolygon")]
    d = vlib.scratch("c12")
    try:
        jobs = [(drv, p, c, vlib.seed() * 7919 + i, gt, os.path.join(d, "c%d" % i)) for i, (p, c, gt) in enumerate(cases)]
        with concurrent.futures.ThreadPoolExecutor(max_workers=8) as ex:
            results = list(ex.map(_case, jobs))
    finally:
        vlib.rm(d)
    chunks = [ls for _, ls in results]
    states = 0
    fails = 0
    while chunks:
        flat = [x for ch in chunks for x in ch]
        r = vlib.run_tlc("PagingTrace", "PagingTrace.cfg", workers=1, timeout=3600, want_vecs=False,
                         data={"paging_trace.ndjson": "\n".join(flat) + "\n"})
        states += r.distinct
        if r.ok:
            break
        m = re.search(r'<<"HWM", (\d+), (\d+)>>', r.out)
        if not m:
            raise Broken("PagingTrace: %s\n%s" % (r.violated or r.error, r.out[-3000:]))
        hwm = int(m.group(1))
        pos = 0
        for k, ch in enumerate(chunks):
            if pos + len(ch) >= hwm:
                break
            pos += len(ch)
        bad = chunks[k]
        head = json.loads(bad[0])
        v.violation("real TargetGeopackage (page size %s, %s features, %s): observation %s is not a behaviour of Paging.tla"
                    % (head.get("P"), head.get("count"), head.get("gtype"), flat[hwm - 1][:400] if hwm - 1 < len(flat) else "(end)"),
                    {"kind": "paging-case", "events": [json.loads(x) for x in bad]}, name="paging")
        fails += 1
        del chunks[k]
        if fails >= 5:
            break
    rc = v.finish()
    vlib.write_evidence(PROP, tier, "model_checking", {
        "states": d0.distinct + states, "transitions": d0.generated + states,
        "traces_validated_against_impl": len(results),
        "samples": [[json.loads(x) for x in results[min(10, len(results) - 1)][1]]],
        "cases": len(results), "page_sizes": "1..%d" % maxp, "counts": "0..3P+1 per page size",
        "geometry_types": gts if tier == "thorough" else "cycled over " + ",".join(gts),
        "design_model": "MC_Paging: P 1..4 x count 0..13 x empty-geometry subsets (refines PagingInt: property RefinesInt)", "exhaustive": True,
        "apalache": {"module": "PagingInt.tla", "obligations": ["Init => IndInv", "IndInv /\\ Next => IndInv'", "IndInv => Complete"],
                     "bounds": "none: every page size >= 1 and every feature count", "wall_s": apalache},
        "rule": "every (page size, count) with count in 0..3P+1: a random source table (1-3 attribute columns with NULLs, geometry column at a random position, "
                "random empty geometries, SRS 28992 or 4326) is read by the real SourceGeopackage and written by a real TargetGeopackage; committed rows observed "
                "after every send through a second connection; final rows/order/values/rtree/extent/schema projected and judged by PagingTrace.tla",
    }, time.time() - t0, violations=len(v.violations),
        assumptions=["libspatialite replaced by the verif-tagged stub (plain SQLite + ST_IsEmpty/ST_Min*/ST_Max*)",
                     "equality of attribute values and geometries with the source row is computed by the harness (reflect.DeepEqual)"])
    return rc


def replay(path):
    o = json.load(open(path))
    h = o["events"][0]
    drv = vlib.build_harness()
    d = vlib.scratch("c12r")
    try:
        _, lines = _case((drv, h["P"], h["count"], 1, h["gtype"], d))
    finally:
        vlib.rm(d)
    r = vlib.run_tlc("PagingTrace", "PagingTrace.cfg", workers=1, timeout=600, want_vecs=False, data={"paging_trace.ndjson": "\n".join(lines) + "\n"})
    print("\n".join(lines))
    print("accepted" if r.ok else "REJECTED")
    return 0 if r.ok else 1
