#!/usr/bin/env python3
"""Negative controls for SnapTrace: corrupt one recorded field and confirm TLC rejects the trace with the expected invariant.
usage: negctl_snap.py <trace.ndjson>  -> prints one line per control; exit 0 iff all controls are rejected as expected"""
import copy
import json
import os
import sys

sys.path.insert(0, os.path.dirname(os.path.abspath(__file__)))
import vlib


def first(recs, pred):
    for i, r in enumerate(recs):
        if pred(r):
            return i
    return None


VALID = set()
NONCOLL = set()


def big_ring(r):
    return r["_i"] in VALID and r["out"] == "ok" and r["res"] and len(r["res"][0]["polys"][0][0]) >= 5 and not r["rev"] and len(r["poly"]) == 1 and r["v"] == "base"


def controls(recs):
    out = []
    # 1. swap two non-adjacent vertices of an output ring -> crossing or not-a-run
    i = first(recs, big_ring)
    if i is not None:
        r = copy.deepcopy(recs[i]); ring = r["res"][0]["polys"][0][0]; ring[1], ring[3] = ring[3], ring[1]
        out.append(("swap-two-output-vertices", i, r, {"C18_ExactRegime"}, None, "C18"))
        # 2. move one output vertex by one pixel
        r = copy.deepcopy(recs[i]); ring = r["res"][0]["polys"][0][0]; ring[0] = [ring[0][0] + 4 * 2 ** r["lv"][0]["k"] * 3, ring[0][1] + 4 * 2 ** r["lv"][0]["k"] * 3]
        out.append(("move-output-vertex", i, r, {"C04_VerticesAreCentres", "C04_EdgesNearInput"}, None, "C04"))
        i2 = first(recs, lambda q: big_ring(q) and q["_i"] in NONCOLL)
        if i2 is not None:
            r2 = copy.deepcopy(recs[i2]); ring = r2["res"][0]["polys"][0][0]; ring[0] = [ring[0][0] + 4 * 2 ** r2["lv"][0]["k"] * 3, ring[0][1]]
            out.append(("move-output-vertex/C02", i2, r2, {"C02_NonCollapsingExact"}, None, "C02"))
        # 3. drop the whole result of a level (of a polygon that is fat enough to have locations far from its boundary)
        def fat(r):
            xs = [p[0] for p in r["poly"][0]]; ys = [p[1] for p in r["poly"][0]]
            return big_ring(r) and r["tag"] == "star" and max(xs) - min(xs) >= 15 and max(ys) - min(ys) >= 15 and r["lv"][0]["k"] == 0
        i3 = first(recs, fat)
        i3 = i if i3 is None else i3
        r = copy.deepcopy(recs[i3]); r["res"] = r["res"][1:]
        i_keep, i = i, i3
        out.append(("drop-level-result", i, r, {"C04_Coverage"}, None, "C04"))
        i = i_keep
        # 4. reverse an output ring
        r = copy.deepcopy(recs[i]); r["res"][0]["polys"][0][0].reverse()
        out.append(("reverse-output-ring", i, r, {"C05_WellFormed"}, None, "C05"))
        # 5. repeat the first vertex at the end
        r = copy.deepcopy(recs[i]); ring = r["res"][0]["polys"][0][0]; ring.append(ring[0])
        out.append(("closing-duplicate", i, r, {"C05_WellFormed"}, None, "C05"))
        # 6. recorded panic
        r = copy.deepcopy(recs[i]); r["out"] = "panic: index out of range"; r["res"] = []
        out.append(("panic", i, r, {"C06_NoPanic"}, None, "C06"))
        # 7. unrequested key
        r = copy.deepcopy(recs[i]); r["res"][0]["z"] = 77
        out.append(("unrequested-key", i, r, {"C08_KeysRequested", "C08_LevelLocal"}, None, "C08"))
    # 7b. an explicit bow-tie in the output of a valid input
    if i is not None:
        r = copy.deepcopy(recs[i]); ring = r["res"][0]["polys"][0][0]; ring[1], ring[3] = ring[3], ring[1]
        out.append(("bow-tie-output", i, r, {"C01_NoCrossing"}, None, "C01"))
    # 7c. keep run loses a polygon of the no-keep run
    j = first(recs, lambda r: r["v"] == "keep" and r["res"] and r["out"] == "ok" and r["keep"])
    if j is not None:
        r = copy.deepcopy(recs[j]); r["res"][0]["polys"] = r["res"][0]["polys"][1:] + [[[[2, 2], [6, 6]]]]
        out.append(("keep-run-differs", j, r, {"C05_KeepExtends"}, None, "C05"))
    # 8. non-deterministic repetition
    j = first(recs, lambda r: r["v"] == "again" and r["res"] and r["out"] == "ok")
    if j is not None:
        r = copy.deepcopy(recs[j]); ring = r["res"][0]["polys"][0][0]; ring.append(ring.pop(0))
        out.append(("rotated-ring-on-repetition", j - 1, None, {"C07_Deterministic"}, (j, r), "C07"))
    # 9. a level result depends on the others requested
    j = first(recs, lambda r: r["v"] == "subset" and r["res"] and r["out"] == "ok")
    if j is not None:
        r = copy.deepcopy(recs[j]); r["res"][0]["polys"] = r["res"][0]["polys"] + [[[[2, 2]]]]
        out.append(("subset-differs", j, r, {"C08_LevelLocal"}, None, "C08"))
    return out


def main():
    path = sys.argv[1]
    lines = open(path).read().splitlines()
    recs = [json.loads(x) for x in lines]
    for i, r in enumerate(recs):
        r["_i"] = i
    st = vlib.run_tlc("SnapTrace", "SnapTrace_C06.cfg", data={"snap_trace.ndjson": "\n".join(lines) + "\n"}, timeout=1200)
    for v in st.vecs:
        if v["valid"]:
            VALID.add(v["l"] - 1)
            if all(e["noncollapsing"] for e in v["lv"]):
                NONCOLL.add(v["l"] - 1)
    bad = 0
    for c in controls(recs):
        name, idx, rec, expect = c[0], c[1], c[2], c[3]
        ls = list(lines)
        if rec is not None:
            rec.pop("_i", None)
            ls[idx] = json.dumps(rec)
        if c[4] is not None:
            ls[c[4][0]] = json.dumps(c[4][1])
        # keep the trace small: the group around idx
        g = recs[idx]["g"]
        sub = [x for x, r in zip(ls, recs) if abs(r["g"] - g) <= 1]
        r = vlib.run_tlc("SnapTrace", "SnapTrace_%s.cfg" % c[5], data={"snap_trace.ndjson": "\n".join(sub) + "\n"}, workers=4, timeout=600, want_vecs=False)
        ok = r.violated in expect
        print("%-32s -> %s %s" % (name, r.violated or ("ACCEPTED" if r.ok else r.error), "(as expected)" if ok else "UNEXPECTED"))
        if not ok:
            bad += 1
    return 1 if bad else 0


if __name__ == "__main__":
    sys.exit(main())
