#!/bin/sh
# tools/seedmatrix.sh [jobs] : for every kept seeded change, apply it in its own scratch worktree of /repo and run the
# checks listed in its meta.json (caught_by) against that worktree (VERIF_REPO), without touching /repo. Prints one line per seed.
cd /verif || exit 2
J=${1:-4}
run_one(){
  sid=$1
  wt=/tmp/sm_$sid
  git -C /repo worktree add -q --detach $wt HEAD || { echo "$sid WORKTREE-FAILED"; return; }
  if ! (cd $wt && git apply /verif/seeded/$sid/patch.diff); then echo "$sid PATCH-DOES-NOT-APPLY"; git -C /repo worktree remove --force $wt; return; fi
  ids=$(python3 -c "import json;print(' '.join(json.load(open('/verif/seeded/$sid/meta.json'))['caught_by']))")
  res=""
  for id in $ids; do
    out=$(VERIF_REPO=$wt VERIF_EVIDENCE_DIR=/tmp/sm_ev_$sid ./check $id quick 2>&1); rc=$?
    res="$res $id=$rc"
  done
  echo "$sid:$res"
  git -C /repo worktree remove --force $wt 2>/dev/null; rm -rf $wt /tmp/sm_ev_$sid
  h=$(python3 -c "import hashlib;print(hashlib.sha1('$wt'.encode()).hexdigest()[:10])"); rm -rf /verif/.build_$h
}
ls seeded | grep -v '^_' | xargs -P $J -I{} sh -c '. /verif/tools/seedmatrix_fn.sh; run_one {}'
