"""Generic trace-validation check for the SnapPolygon properties (SnapTrace.tla).

generate (real code, several processes) -> ndjson trace -> TLC validates every record with the property's
invariants -> failing records are reproduced through the real code, matched against known findings, reported."""
import concurrent.futures
import json
import os
import time

import vlib
from vlib import Broken, log


def _gen_one(args):
    drv, a, out = args
    p = vlib.run([drv, "snap-trace"] + a + ["-out", out], timeout=3600)
    if p.returncode != 0:
        raise Broken("snap-trace failed: %s\n%s" % (" ".join(a), p.stderr[-3000:]))
    return out


def generate(drv, d, plans, procs=8):
    """plans: list of dict(gens, variants, n, W, nmax, bias, seed). Returns list of record lines (groups consecutive)."""
    jobs = []
    g0 = 0
    for pi, pl in enumerate(plans):
        shards = max(1, min(procs, pl["n"] // 50))
        per = (pl["n"] + shards - 1) // shards
        for s in range(shards):
            a = ["-seed", str(pl["seed"] * 1000 + pi * 100 + s), "-n", str(per), "-W", str(pl.get("W", 6)),
                 "-nmax", str(pl.get("nmax", 12)), "-gens", pl["gens"], "-variants", pl["variants"],
                 "-bias", str(pl.get("bias", 0.5)), "-g0", str(g0)]
            a += pl.get("extra", [])
            jobs.append((drv, a, os.path.join(d, "t_%d_%d.ndjson" % (pi, s))))
            g0 += per
    lines = []
    with concurrent.futures.ThreadPoolExecutor(max_workers=procs) as ex:
        for out in ex.map(_gen_one, jobs):
            with open(out) as fh:
                lines.extend(fh.read().splitlines())
            os.unlink(out)
    return lines


def add_second_process(drv, d, plans, lines, procs=8):
    """C07 'in every process': regenerate the same plans in fresh processes and append each group's base record
    to the group as another variant; TLC then demands identical results."""
    again = generate(drv, d, plans, procs)
    by_g = {}
    for ln in again:
        r = json.loads(ln)
        if r["v"] == "base":
            r["v"] = "proc2"
            by_g[r["g"]] = json.dumps(r)
    out = []
    cur = None
    for ln in lines:
        g = json.loads(ln)["g"]
        if cur is not None and g != cur and cur in by_g:
            out.append(by_g.pop(cur))
        cur = g
        out.append(ln)
    if cur in by_g:
        out.append(by_g.pop(cur))
    return out


def group_of(lines, idx):
    g = json.loads(lines[idx])["g"]
    lo = idx
    while lo > 0 and json.loads(lines[lo - 1])["g"] == g:
        lo -= 1
    hi = idx
    while hi + 1 < len(lines) and json.loads(lines[hi + 1])["g"] == g:
        hi += 1
    return lo, hi


def reproduce(drv, cfg, group_lines, extra_data=None):
    """Re-run a group of recorded calls through the current code and validate the fresh records.
    Returns (violated_invariant or None, fresh_lines)."""
    p = vlib.run([drv, "snap-replay"], input="\n".join(group_lines) + "\n", timeout=600)
    if p.returncode != 0:
        raise Broken("snap-replay failed: " + p.stderr[-2000:])
    fresh = [x for x in p.stdout.splitlines() if x.strip()]
    d = dict(extra_data or {})
    d["snap_trace.ndjson"] = "\n".join(fresh) + "\n"
    r = vlib.run_tlc("SnapTrace", cfg, data=d, workers=2, timeout=900, want_vecs=False)
    if r.ok:
        return None, fresh
    if r.violated:
        return r.violated, fresh
    raise Broken("replay validation: %s\n%s" % (r.error, r.out[-2000:]))


def validate(prop, cfg, lines, v, drv, classify=None, max_fail=6, timeout=7200):
    """Run TLC over the whole trace; on a failing record: reproduce its group, classify, report, remove the group, continue.
    Returns dict with states, transitions, stats."""
    lines = list(lines)
    total_states = 0
    total_trans = 0
    stats = None
    fails = 0
    import re
    while lines:
        r = vlib.run_tlc("SnapTrace", cfg, data={"snap_trace.ndjson": "\n".join(lines) + "\n"}, timeout=timeout, heap="6g")
        total_states += r.distinct
        total_trans += r.generated
        if stats is None or r.ok:
            stats = r.vecs
        if r.ok:
            break
        if not r.violated:
            raise Broken("SnapTrace/%s: %s\n%s" % (cfg, r.error, r.out[-3000:]))
        m = re.findall(r"l = (\d+)", r.trace_text)
        if not m:
            raise Broken("cannot locate failing record\n" + r.out[-2000:])
        idx = int(m[-1]) - 1
        lo, hi = group_of(lines, idx)
        grp = lines[lo:hi + 1]
        inv, fresh = reproduce(drv, cfg, grp)
        rec = json.loads(lines[idx])
        if inv is None:
            raise Broken("%s failed on a recorded call but the same call re-executed satisfies it (flaky observation?): %s"
                         % (r.violated, lines[idx][:500]))
        what = "%s fails for %s polygon %s on %s (keep=%s rev=%s levels=%s): returned %s" % (
            inv, rec["tag"], json.dumps(rec["poly"]), rec["grid"], rec["keep"], rec["rev"], json.dumps(rec["lv"]),
            json.dumps(rec["res"])[:600])
        fid = classify(inv, rec, grp) if classify else None
        if fid:
            v.known_finding(fid[0], fid[1])
        else:
            v.violation(what, {"kind": "snap-group", "cfg": cfg, "invariant": inv, "records": [json.loads(x) for x in grp]}, name="snap")
            fails += 1
        del lines[lo:hi + 1]
        if fails >= max_fail:
            break
    return {"states": total_states, "transitions": total_trans, "stats": stats or []}


def summarize(stats_vecs):
    s = dict(records=0, valid=0, levels_of_valid=0, noncollapsing=0, atmosttwice=0, repeats=0,
             atmosttwice_and_repeats=0, absent=0, more_than_twice=0)
    for o in stats_vecs:
        s["records"] += 1
        if o["valid"]:
            s["valid"] += 1
            for e in o["lv"]:
                s["levels_of_valid"] += 1
                s["noncollapsing"] += e["noncollapsing"]
                s["atmosttwice"] += e["atmosttwice"]
                s["repeats"] += e["repeats"]
                s["atmosttwice_and_repeats"] += (e["atmosttwice"] and e["repeats"])
                s["more_than_twice"] += (not e["atmosttwice"])
                s["absent"] += (not e["present"])
    return s


def run_snap_property(prop, tier, cfg, plans, rule, classify=None, second_process=False, min_valid_frac=0.0,
                      extra_cov=None, assumptions=None, extra_lines=None, post=None):
    t0 = time.time()
    v = vlib.Verdict(prop)
    drv = vlib.build_harness()
    d = vlib.scratch(prop.lower() + "gen")
    try:
        lines = generate(drv, d, plans)
        if second_process:
            lines = add_second_process(drv, d, plans, lines)
        if extra_lines:
            lines = extra_lines(drv, d) + lines
    finally:
        vlib.rm(d)
    if not lines:
        raise Broken("no records generated")
    res = validate(prop, cfg, lines, v, drv, classify=classify)
    st = summarize(res["stats"])
    if st["records"] and st["valid"] < min_valid_frac * st["records"]:
        raise Broken("generator degenerate: only %d of %d records are valid polygons" % (st["valid"], st["records"]))
    groups = len({json.loads(x)["g"] for x in lines})
    cov = {
        "states": res["states"], "transitions": res["transitions"],
        "traces_validated_against_impl": len(lines),
        "samples": [json.loads(lines[0]), json.loads(lines[len(lines) // 2])],
        "inputs": groups, "records": len(lines), "record_stats": st, "rule": rule,
        "plans": plans,
    }
    if extra_cov:
        cov.update(extra_cov)
    if post:
        post(v, drv, cov)
    rc = v.finish()
    vlib.write_evidence(prop, tier, "model_checking", cov, time.time() - t0, violations=len(v.violations),
                        assumptions=(assumptions or []) + [
                            "synthetic dyadic grids: inputs and outputs project exactly onto the lattice (asserted per record)",
                            "the routed boundary is computed by TLC from the input (Grid!Route), not taken from the code"])
    return rc


def replay_snap(path):
    o = json.load(open(path))
    drv = vlib.build_harness()
    grp = [json.dumps(r) for r in o["records"]]
    inv, fresh = reproduce(drv, o["cfg"], grp)
    for x in fresh:
        print(x[:2000])
    if inv:
        print("reproduced: %s violated" % inv)
        return 1
    print("not reproduced: the re-executed calls satisfy %s" % o["cfg"])
    return 0
