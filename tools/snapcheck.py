"""Generic trace-validation check for the SnapPolygon properties (SnapTrace.tla).

generate (real code, several processes) -> ndjson trace -> TLC validates every record with the property's
invariants -> failing records are reproduced through the real code, matched against known findings, reported."""
import concurrent.futures
import json
import os
import time

import vlib
from vlib import Broken, log


def _gen_one(args):
    drv, cmd, a, out = args
    p = vlib.run([drv, cmd] + a + ["-out", out], timeout=3600)
    if p.returncode != 0:
        raise Broken("%s failed: %s\n%s" % (cmd, " ".join(a), p.stderr[-3000:]))
    return out


def generate(drv, d, plans, procs=8):
    """plans: list of dict(gens, variants, n, W, nmax, bias, seed). Returns list of record lines (groups consecutive)."""
    jobs = []
    g0 = 0
    for pi, pl in enumerate(plans):
        shards = max(1, min(procs, pl["n"] // 50))
        per = (pl["n"] + shards - 1) // shards
        for s in range(shards):
            if pl.get("real"):
                a = ["-seed", str(pl["seed"] * 1000 + pi * 100 + s), "-n", str(per), "-gens", pl["gens"], "-variants", pl["variants"],
                     "-g0", str(g0), "-where", pl.get("where", "interior,origin,nl"), "-maxz", str(pl.get("maxz", 20))]
                if pl.get("sets"):
                    a += ["-sets", pl["sets"]]
                if pl.get("deep"):
                    a += ["-deep"]
                cmd = "real-trace"
            else:
                a = ["-seed", str(pl["seed"] * 1000 + pi * 100 + s), "-n", str(per), "-W", str(pl.get("W", 6)),
                     "-nmax", str(pl.get("nmax", 12)), "-gens", pl["gens"], "-variants", pl["variants"],
                     "-bias", str(pl.get("bias", 0.5)), "-g0", str(g0)]
                cmd = "snap-trace"
            a += pl.get("extra", [])
            jobs.append((drv, cmd, a, os.path.join(d, "t_%d_%d.ndjson" % (pi, s))))
            g0 += per
    lines = []
    with concurrent.futures.ThreadPoolExecutor(max_workers=procs) as ex:
        for out in ex.map(_gen_one, jobs):
            with open(out) as fh:
                lines.extend(fh.read().splitlines())
            os.unlink(out)
    return lines


def add_second_process(drv, d, plans, lines, procs=8):
    """C07 'in every process': regenerate the same plans in fresh processes and append each group's base record
    to the group as another variant; TLC then demands identical results."""
    again = generate(drv, d, plans, procs)
    by_g = {}
    for ln in again:
        r = json.loads(ln)
        if r["v"] == "base":
            r["v"] = "proc2"
            by_g[r["g"]] = json.dumps(r)
    out = []
    cur = None
    for ln in lines:
        g = json.loads(ln)["g"]
        if cur is not None and g != cur and cur in by_g:
            out.append(by_g.pop(cur))
        cur = g
        out.append(ln)
    if cur in by_g:
        out.append(by_g.pop(cur))
    return out


def group_of(lines, idx):
    g = json.loads(lines[idx])["g"]
    lo = idx
    while lo > 0 and json.loads(lines[lo - 1])["g"] == g:
        lo -= 1
    hi = idx
    while hi + 1 < len(lines) and json.loads(lines[hi + 1])["g"] == g:
        hi += 1
    return lo, hi


def reproduce(drv, cfg, group_lines, extra_data=None, module="SnapTrace"):
    """Re-run a group of recorded calls through the current code and validate the fresh records.
    Returns (violated_invariant or None, fresh_lines)."""
    cmd = ["real-replay"] if module == "RealTrace" else (["snap-replay", "-steps"] if module == "SnapSteps" else ["snap-replay"])
    p = vlib.run([drv] + cmd, input="\n".join(group_lines) + "\n", timeout=600)
    if p.returncode != 0:
        raise Broken("%s failed: %s" % (cmd, p.stderr[-2000:]))
    fresh = [x for x in p.stdout.splitlines() if x.startswith("{")]
    d = dict(extra_data or {})
    d["snap_trace.ndjson"] = "\n".join(fresh) + "\n"
    r = vlib.run_tlc(module, cfg, data=d, workers=2, timeout=900, want_vecs=False)
    if r.ok:
        return None, fresh
    if r.violated:
        return r.violated, fresh
    raise Broken("replay validation: %s\n%s" % (r.error, r.out[-2000:]))


def _validate_chunk(prop, cfg, lines, v, drv, classify, max_fail, timeout, module, max_known, require_repro, workers, lock):
    """One TLC process over one chunk of whole groups; failing groups are reproduced, classified, reported, removed, and the
    chunk re-run so that the rest of it is still examined."""
    lines = list(lines)
    total_states = 0
    total_trans = 0
    stats = []
    fails = 0
    knowns = 0
    import re
    while lines:
        r = vlib.run_tlc(module, cfg, data={"snap_trace.ndjson": "\n".join(lines) + "\n"}, timeout=timeout, heap="4g", workers=workers)
        total_states += r.distinct
        total_trans += r.generated
        if r.ok:
            stats = r.vecs
            break
        if not stats:
            stats = r.vecs
        if not r.violated:
            raise Broken("%s/%s: %s\n%s" % (module, cfg, r.error, r.out[-3000:]))
        m = re.findall(r"l = (\d+)", r.trace_text)
        if not m:
            raise Broken("cannot locate failing record\n" + r.out[-2000:])
        idx = int(m[-1]) - 1
        lo, hi = group_of(lines, idx)
        grp = lines[lo:hi + 1]
        inv, fresh = reproduce(drv, cfg, grp, module=module)
        for _ in range(4):          # a schedule- or map-order-dependent failure may need a few attempts to show again
            if inv is not None:
                break
            inv, fresh = reproduce(drv, cfg, grp, module=module)
        rec = json.loads(lines[idx])
        if inv is None and not require_repro and r.violated != "C06_Time":
            # (a wall-clock observation that does not repeat is a load artefact, not behaviour: that one stays exit 2)
            # determinism properties: the recorded calls ARE real behaviour (outputs of pure calls, no timing in the observation)
            rec["_reproduced"] = False
            inv = r.violated
        if inv is None:
            raise Broken("%s failed on a recorded call but the same call re-executed (5 times) satisfies it (flaky observation?): %s"
                         % (r.violated, lines[idx][:500]))
        what = "%s fails for %s polygon %s on %s (keep=%s rev=%s levels=%s): returned %s" % (
            inv, rec["tag"], json.dumps(rec["poly"]), rec["grid"], rec["keep"], rec["rev"], json.dumps(rec["lv"]),
            json.dumps(rec["res"])[:600])
        fid = classify(inv, rec, grp) if classify else None
        with lock:
            if fid:
                v.known_finding(fid[0], fid[1])
                knowns += 1
                if fid[0] in ("F9", "F10", "F8"):
                    # keyed by a condition on the record itself: drop every other record with the same key at once
                    keep = []
                    for ln in lines:
                        rr = json.loads(ln)
                        f2 = classify(inv, rr, [ln]) if rr.get("out", "ok") != "ok" or fid[0] == "F8" else None
                        if f2 and f2[0] == fid[0] and ln not in grp:
                            v.known_finding(f2[0], f2[1])
                        else:
                            keep.append(ln)
                    lines = [x for x in keep if x not in grp]
                    continue
                if knowns >= max_known:
                    raise Broken("more than %d known-finding occurrences in one chunk: the bounds of this check need refitting" % max_known)
            else:
                v.violation(what, {"kind": "snap-group", "cfg": cfg, "invariant": inv, "records": [json.loads(x) for x in grp]}, name="snap")
                fails += 1
        del lines[lo:hi + 1]
        if fails >= max_fail:
            break
    return {"states": total_states, "transitions": total_trans, "stats": stats}


def validate(prop, cfg, lines, v, drv, classify=None, max_fail=6, timeout=7200, module="SnapTrace", max_known=40, require_repro=False):
    """Validate the whole trace with TLC. Large traces are cut at group boundaries into chunks that separate TLC processes
    validate concurrently (a record only refers to later records of its own group)."""
    import threading
    lines = list(lines)
    # records of generators with a known finding of their own (spirals: F13) go into small chunks of their own: every occurrence
    # is classified and removed and its chunk re-validated, which must not mean re-validating thousands of unrelated records
    iso = [x for x in lines if '"tag":"spiral"' in x]
    iso_chunks = []
    if iso and len(iso) < len(lines):
        lines = [x for x in lines if '"tag":"spiral"' not in x]
        cur = []
        for x in iso:
            if len(cur) >= 80 and json.loads(x)["g"] != json.loads(cur[-1])["g"]:
                iso_chunks.append(cur)
                cur = []
            cur.append(x)
        if cur:
            iso_chunks.append(cur)
    nchunks = max(1, min(8, len(lines) // 3000))
    chunks = []
    if nchunks == 1:
        chunks = [lines]
    else:
        per = len(lines) // nchunks
        start = 0
        for c in range(nchunks):
            end = len(lines) if c == nchunks - 1 else min(len(lines), start + per)
            while 0 < end < len(lines) and json.loads(lines[end])["g"] == json.loads(lines[end - 1])["g"]:
                end += 1
            if end > start:
                chunks.append(lines[start:end])
            start = end
    chunks += iso_chunks
    lock = threading.Lock()
    workers = 16 if len(chunks) == 1 else max(2, 16 // len(chunks))
    results = []
    with concurrent.futures.ThreadPoolExecutor(max_workers=min(len(chunks), 8)) as ex:
        futs = [ex.submit(_validate_chunk, prop, cfg, ch, v, drv, classify, max(1, max_fail // len(chunks) + 1), timeout, module, max_known,
                          require_repro, workers, lock) for ch in chunks]
        for f in futs:
            results.append(f.result())
    out = {"states": sum(r["states"] for r in results), "transitions": sum(r["transitions"] for r in results), "stats": []}
    for r in results:
        out["stats"].extend(r["stats"])
    return out


def summarize(stats_vecs):
    s = dict(records=0, valid=0, levels_of_valid=0, noncollapsing=0, atmosttwice=0, repeats=0,
             atmosttwice_and_repeats=0, absent=0, more_than_twice=0)
    for o in stats_vecs:
        s["records"] += 1
        if o["valid"]:
            s["valid"] += 1
            for e in o["lv"]:
                s["levels_of_valid"] += 1
                s["noncollapsing"] += e["noncollapsing"]
                s["atmosttwice"] += e["atmosttwice"]
                s["repeats"] += e["repeats"]
                s["atmosttwice_and_repeats"] += (e["atmosttwice"] and e["repeats"])
                s["more_than_twice"] += (not e["atmosttwice"])
                s["absent"] += (not e["present"])
    return s


DESIGN = {
    # (module, cfg, tiers, heap): exhaustive design models; a failure is the machinery's problem (exit 2), never a verdict on the code
    "snap": [("MC_Snap", "MC_Snap_live.cfg", ("quick", "thorough"), "3g"), ("MC_Snap", "MC_Snap_tri.cfg", ("thorough",), "10g"),
             ("MC_Snap", "MC_Snap_frame.cfg", ("thorough",), "10g")],
    # the same machine with the CODE's own spike removal / splitting / assembly (Dedupe, SplitRing, Assemble transcriptions, which
    # the real functions are replayed against): the properties hold for the algorithm the code executes, not only for the reference
    "snapcode": [("MC_Snap", "MC_Snap_live_code.cfg", ("quick", "thorough"), "3g"), ("MC_Snap", "MC_Snap_tri_code.cfg", ("thorough",), "10g"),
                 ("MC_Snap", "MC_Snap_frame_code.cfg", ("thorough",), "10g")],       # 3.98 M states, 4 min
    # every quadrilateral (incl. bow-ties, which must be left alone or rejected) on the 5x5 lattice: 8.13 M states, 2 min 20 s at 8 workers
    "snapquad": [("MC_Snap", "MC_Snap_quad.cfg", ("thorough",), "10g"), ("MC_Snap", "MC_Snap_quad_code.cfg", ("thorough",), "10g")],
    "rounding": [("MC_SnapRounding", "MC_SnapRounding.cfg", ("thorough",), "10g")],
    "descent": [("Descent", "MC_Descent.cfg", ("quick", "thorough"), "6g")],
    "levels": [("LevelArith", "MC_LevelArith.cfg", ("quick", "thorough"), "3g")],
}


def run_design(keys, tier):
    done = []
    for key in keys:
        for module, cfg, tiers, heap in DESIGN[key]:
            if tier not in tiers:
                continue
            r = vlib.run_tlc(module, cfg, timeout=7200, want_vecs=False, heap=heap, gc="parallel" if heap != "3g" else "serial")
            if not r.ok:
                raise Broken("design model %s/%s fails: %s\n%s" % (module, cfg, r.violated or r.error, r.trace_text[:3000]))
            done.append({"model": cfg, "states": r.distinct, "transitions": r.generated, "wall_s": round(r.wall, 1)})
        if key == "levels":
            # the same lemmas without bounds and for any factorisation of the deepest level (LevelArithInt.tla, Apalache, length 0)
            w = vlib.run_apalache("LevelArithInt", "Init", "Inv", 0)
            done.append({"model": "LevelArithInt.tla (Apalache: Init => CentreWithinDeviation /\\ AcceptedBand /\\ AddrIsPixel, no bounds)",
                         "states": 0, "transitions": 0, "wall_s": w})
    return done


def run_snap_property(prop, tier, cfg, plans, rule, classify=None, second_process=False, min_valid_frac=0.0,
                      extra_cov=None, assumptions=None, extra_lines=None, post=None, real_plans=None, real_cfg=None, require_repro=False,
                      design=("snap",), steps_plans=None, steps_cfg=None, codesnap=False):
    t0 = time.time()
    v = vlib.Verdict(prop)
    design_done = run_design(design, tier)
    drv = vlib.build_harness()
    d = vlib.scratch(prop.lower() + "gen")
    try:
        lines = generate(drv, d, plans)
        if second_process:
            lines = add_second_process(drv, d, plans, lines)
        if extra_lines:
            lines = extra_lines(drv, d) + lines
    finally:
        vlib.rm(d)
    if not lines:
        raise Broken("no records generated")
    res = validate(prop, cfg, lines, v, drv, classify=classify, require_repro=require_repro)
    rres = None
    rlines = []
    if real_plans:
        d = vlib.scratch(prop.lower() + "real")
        try:
            rlines = generate(drv, d, real_plans)
        finally:
            vlib.rm(d)
        rres = validate(prop, real_cfg, rlines, v, drv, classify=classify, module="RealTrace", require_repro=require_repro)
    sres = None
    slines = []
    if steps_plans:
        d = vlib.scratch(prop.lower() + "steps")
        try:
            slines = generate(drv, d, [dict(pl, extra=pl.get("extra", []) + ["-steps"]) for pl in steps_plans])
        finally:
            vlib.rm(d)
        sres = validate(prop, steps_cfg, slines, v, drv, classify=classify, module="SnapSteps", require_repro=require_repro)
    st = summarize(res["stats"])
    if not v.violations and st["records"] and st["valid"] < min_valid_frac * st["records"]:   # (statistics are partial once a record has failed)
        raise Broken("generator degenerate: only %d of %d records are valid polygons" % (st["valid"], st["records"]))
    groups = len({json.loads(x)["g"] for x in lines})
    cov = {
        "states": res["states"], "transitions": res["transitions"],
        "traces_validated_against_impl": len(lines),
        "samples": [json.loads(lines[0]), json.loads(lines[len(lines) // 2])],
        "inputs": groups, "records": len(lines), "record_stats": st, "rule": rule,
        "plans": plans,
    }
    if rres is not None:
        cov["real_grid_records"] = len(rlines)
        cov["real_grid_states"] = rres["states"]
        cov["real_grid_plans"] = real_plans
        cov["states"] += rres["states"]
        cov["transitions"] += rres["transitions"]
        cov["traces_validated_against_impl"] += len(rlines)
        sets = {}
        for ln in rlines:
            nm = json.loads(ln)["set"]
            sets[nm] = sets.get(nm, 0) + 1
        cov["real_grid_sets"] = sets
        if rlines:
            cov["samples"].append(json.loads(rlines[0]))
    if sres is not None:
        cov["intermediate_step_records"] = len(slines)
        cov["intermediate_step_events"] = sum(len(json.loads(x)["steps"]) for x in slines[:2000]) * max(1, len(slines) // max(1, min(len(slines), 2000)))
        cov["states"] += sres["states"]
        cov["transitions"] += sres["transitions"]
        cov["traces_validated_against_impl"] += len(slines)
    if codesnap:
        ncs, csbad = codesnap_mismatches(lines)
        cov["codesnap_records"] = ncs
        cov["codesnap_mismatches"] = len(csbad)
        cov["traces_validated_against_impl"] += ncs
        if csbad and not v.violations:
            raise Broken("the real SnapPolygon differs from CodeSnap.tla (the composed transcription of the pinned post-processing) on %d "
                         "record(s), e.g. %s: the design results do not transfer to this code, and no violation of %s was found"
                         % (len(csbad), csbad[0][:600], prop))
    cov["design_models"] = design_done
    cov["states"] += sum(d["states"] for d in design_done)
    cov["transitions"] += sum(d["transitions"] for d in design_done)
    if extra_cov:
        cov.update(extra_cov)
    if post:
        post(v, drv, cov)
    rc = v.finish()
    vlib.write_evidence(prop, tier, "model_checking", cov, time.time() - t0, violations=len(v.violations),
                        assumptions=(assumptions or []) + [
                            "synthetic dyadic grids: inputs and outputs project exactly onto the lattice (asserted per record)",
                            "the routed boundary is computed by TLC from the input (Grid!Route), not taken from the code"])
    return rc


def codesnap_mismatches(lines, max_report=5):
    """CodeSnap.tla: the composed transcription of addPointsAndSnap (routing, hit bookkeeping, cleanupNewRing, Dedupe, SplitRing,
    level dropping, Assemble, flags) evaluated by TLC on every recorded call; returns (number of records checked, list of records on
    which the real result is not what the transcription of the pinned code computes)."""
    import re
    lines = [x for x in lines if '"step"' not in x[:40]]
    chunks = [lines[i::4] for i in range(4)] if len(lines) >= 400 else [lines]
    bad = []

    def one(ch):
        ch = list(ch)
        out = []
        while ch and len(out) < max_report:
            r = vlib.run_tlc("CodeSnap", "CodeSnap.cfg", data={"snap_trace.ndjson": "\n".join(ch) + "\n"}, timeout=7200, heap="5g",
                             workers=4 if len(chunks) > 1 else 16, want_vecs=False)
            if r.ok:
                break
            if not r.violated:
                raise Broken("CodeSnap: %s\n%s" % (r.error, r.out[-2000:]))
            m = re.findall(r"l = (\d+)", r.trace_text)
            if not m:
                raise Broken("CodeSnap: cannot locate the failing record\n" + r.out[-1500:])
            idx = int(m[-1]) - 1
            out.append(ch[idx])
            del ch[idx]
        return out
    with concurrent.futures.ThreadPoolExecutor(max_workers=len(chunks)) as ex:
        for o in ex.map(one, chunks):
            bad += o
    return len(lines), bad


def codesnap_agrees(rec):
    """Is the recorded result exactly what the transcription of the pinned code returns for this input? (part of the keys of the
    known findings F5 and F13: a known defect of the pinned code is only recognised where the code still behaves as it did)"""
    r = vlib.run_tlc("CodeSnap", "CodeSnap.cfg", data={"snap_trace.ndjson": json.dumps(rec) + "\n"}, timeout=1800, workers=2, want_vecs=False)
    if r.ok:
        return True
    if r.violated:
        return False
    raise Broken("CodeSnap: %s" % r.error)


def replay_snap(path):
    o = json.load(open(path))
    drv = vlib.build_harness()
    grp = [json.dumps(r) for r in o["records"]]
    module = "RealTrace" if o["cfg"].startswith("RealTrace") else ("SnapSteps" if o["cfg"].startswith("SnapSteps") else "SnapTrace")
    inv, fresh = reproduce(drv, o["cfg"], grp, module=module)
    for x in fresh:
        print(x[:2000])
    if inv:
        print("reproduced: %s violated" % inv)
        return 1
    print("not reproduced: the re-executed calls satisfy %s" % o["cfg"])
    return 0


# ---------------- known findings keyed by a condition on the failing record ----------------
def classify_known(prop):
    known = {f["id"]: f for f in vlib.known_for(prop)}

    def classify(inv, rec, grp):
        out = rec.get("out", "ok")
        if "F9" in known and out.startswith("panic: cannot make Z out of") and rec.get("levels") and max(rec["levels"]) > 32:
            return ("F9", known["F9"]["what"])
        if "F10" in known and out.startswith("panic: trying to insert a coord") and rec.get("far_band"):
            return ("F10", known["F10"]["what"])
        return None
    return classify


# ---------------- label sequences (Chains.tla) ----------------
def chains_lines(drv, tier, every_quick=4, every_thorough=3, want_kmp=True):
    """TLC enumerates the canonical closed label sequences; returns (kmp record lines, snap record lines, n sequences, tlc result)."""
    cfg = "MC_Chains_quick.cfg" if tier == "quick" else "MC_Chains_thorough.cfg"
    r = vlib.run_tlc("Chains", cfg, timeout=3600)
    if not r.ok or len(r.vecs) < 1000:
        raise Broken("Chains: %s (%d sequences)" % (r.violated or r.error, len(r.vecs)))
    d = vlib.scratch("chains")
    try:
        inp = os.path.join(d, "v.ndjson")
        with open(inp, "w") as fh:
            fh.write("\n".join(json.dumps(x) for x in r.vecs) + "\n")
        k, s_ = os.path.join(d, "k.ndjson"), os.path.join(d, "s.ndjson")
        p = vlib.run([drv, "chain-replay", "-in", inp, "-kmp", k, "-snap", s_, "-seed", str(vlib.seed()),
                      "-every", str(every_quick if tier == "quick" else every_thorough)], timeout=3600)
        if p.returncode != 0:
            raise Broken("chain-replay failed: " + p.stderr[-2000:])
        kl = open(k).read().splitlines()
        sl = open(s_).read().splitlines()
    finally:
        vlib.rm(d)
    return kl, sl, len(r.vecs), r


def f13_key_matches(rec, cfg="SnapTrace_C04.cfg"):
    """Known finding F13 is keyed by the input: at a requested level the routed boundary the specification computes runs along
    the same directed edge more than once (multi-turn spiral thinner than a pixel), and the coverage clause fails ONLY at such
    levels (the record restricted to the other levels satisfies the whole configuration). Returns the list of those levels or None."""
    r = vlib.run_tlc("SnapTrace", "SnapTrace_chains.cfg", data={"snap_trace.ndjson": json.dumps(rec) + "\n"}, workers=2, timeout=900)
    if not r.ok or not r.vecs:
        raise Broken("cannot compute the routed boundary of the failing input: %s" % (r.violated or r.error))
    rep = [lv["z"] for lv in r.vecs[0]["lv"] if lv["rep"]]
    if not rep:
        return None
    rest = [lv for lv in rec["lv"] if lv["z"] not in rep]
    if rest:
        rec2 = dict(rec)
        rec2["lv"] = rest
        rec2["res"] = [x for x in rec["res"] if x["z"] not in rep]
        rec2["ids"] = [z for z in rec.get("ids", []) if z not in rep]
        r2 = vlib.run_tlc("SnapTrace", cfg, data={"snap_trace.ndjson": json.dumps(rec2) + "\n"}, workers=2, timeout=900, want_vecs=False)
        if not r2.ok:
            if r2.violated:
                return None          # it also fails where the boundary does not repeat an edge: not this finding
            raise Broken("cannot re-validate the restricted record: %s" % r2.error)
    return rep


def f5_key_matches(drv, rec_lines):
    """Known finding F5 is keyed by call site AND history: kmpDeduplicate, applied to the routed boundary the specification computes
    for the failing input, returns an adjacency its argument does not contain - and returns exactly what the transcription of the
    pinned code (Dedupe.tla) returns for that ring. A spike removal that invents an adjacency where the pinned code does not is a
    different defect and is not matched. Returns the witness or None."""
    r = vlib.run_tlc("SnapTrace", "SnapTrace_chains.cfg", data={"snap_trace.ndjson": "\n".join(rec_lines) + "\n"}, workers=2, timeout=900)
    if not r.ok:
        raise Broken("cannot compute the routed boundary of the failing input: %s" % (r.violated or r.error))
    rings = []
    for v in r.vecs:
        if "lv" not in v:
            continue
        for lv in v["lv"]:
            for ring in lv["rings"]:
                if len(ring) >= 3:
                    labels = {}
                    rings.append([labels.setdefault(tuple(pt), len(labels)) for pt in ring])
    if not rings:
        return None
    p = vlib.run([drv, "kmp-run"], input="\n".join(json.dumps({"ring": x}) for x in rings) + "\n", timeout=300)
    if p.returncode != 0:
        raise Broken("kmp-run failed: " + p.stderr[-1000:])
    cand = []
    for ln in p.stdout.splitlines():
        o = json.loads(ln)
        if o["out"] != "ok":
            continue
        ring, got = o["ring"], o["got"]
        adj = {frozenset((ring[i], ring[(i + 1) % len(ring)])) for i in range(len(ring))}
        inv = [(got[i], got[(i + 1) % len(got)]) for i in range(len(got))
               if got[i] != got[(i + 1) % len(got)] and frozenset((got[i], got[(i + 1) % len(got)])) not in adj] if len(got) >= 2 else []
        if inv:
            cand.append((ln, {"argument": ring, "result": got, "invented": inv[0]}))
    for ln, wit in cand:
        cfg = "SPECIFICATION Spec\nINVARIANTS AsTranscribed\nCHECK_DEADLOCK FALSE\n"
        t = vlib.run_tlc("DedupeTrace", "DedupeTraceF5.cfg", data={"dedupe_trace.ndjson": ln + "\n", "DedupeTraceF5.cfg": cfg}, workers=1, timeout=900,
                         want_vecs=False)
        if t.ok:
            return wit          # the pinned code's own behaviour on this ring
        if not t.violated:
            raise Broken("cannot evaluate Dedupe.tla on the routed boundary: %s" % t.error)
    return None
