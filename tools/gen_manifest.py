#!/usr/bin/env python3
"""Writes /verif/MANIFEST.json from the table below (kept in one place so it stays valid)."""
import json
import os

VERIF = os.path.dirname(os.path.dirname(os.path.abspath(__file__)))

CHECKS = {
    "C17": dict(
        category="model_checking", design_ref="DESIGN.md §7 C17",
        technique="TLA+ bit-set model of the shift/or/mask network (constants extracted from morton.go), TLC exhaustive on generators; TLC vectors replayed into ToZ/FromZ; records of the real code validated against the model by TLC",
        text="TLC checks exhaustively (17 457 generator pairs, every stage a state) that the network read out of morton.go equals bit interleaving, inverts, and commutes with the parent shift; every TLC vector is replayed through the real ToZ/FromZ, and records of the real code on random wide words (key, ok flag, union-linearity, parent, child keys, decode) are judged by the same model, which lifts the generator check to all 2^64 pairs.",
        note="Trusted: Go uint is 64-bit with set-like |,&,<<,>>; the transcription of the loop bodies (bound by replay and trace records); TLC."),
}

CHECKS["C02"] = dict(
    category="model_checking", design_ref="DESIGN.md §7 C02",
    technique="TLA+ routing oracle (Grid!Route, exact half-open clip) enumerated by TLC over every lattice segment of a pixel window x hot sets; each TLC vector replayed into PointIndex.SnapClosestPoints at several quadtree placements/levels; random real-code records validated by TLC against the same oracle",
    text="The specification defines 'closed edge meets half-open pixel' and the order of travel exactly (cross-multiplied integer fractions) and is itself cross-checked by TLC against a brute-force definition on a refined lattice. TLC enumerates every segment of the window (every tie case: endpoint on border/corner, edge along a border, edge through a corner) with several hot sets; each is replayed through the real index at 4-12 placements (different depth, origin, tile width, level, alignment to the quadtree centre and corners), and random records from larger windows are validated by TLC.",
    note="Trusted: TLC; synthetic dyadic grids convert exactly (asserted per coordinate); the non-collapsing-polygon sentence is decided by the Snap trace specification.")
CHECKS["C09"] = dict(
    category="model_checking", design_ref="DESIGN.md §7 C09",
    technique="TLA+ half-open grid predicate (Grid!InGrid/Outcome); TLC enumerates every lattice point in a 2-pixel band around all borders x vertex position x ignore flag; each vector replayed into SnapPolygon and InsertPoint on synthetic and built-in grids",
    text="Exhaustive at the border: every quarter-pixel lattice point from two pixels outside to two pixels inside each border and corner is replayed, measured from the nearest border, on synthetic grids (zero, negative and positive origin, both corner conventions, tile widths 1..256) and on NetherlandsRDNewQuad / WebMercatorQuad / NZTM2000Quad; the observed outcome (snapped / empty / OutsideGridError panic / error of InsertPoint) must equal the specified one.",
    note="Trusted: TLC; float inputs are checked to convert to the intended 1e-10 integer (else skipped and counted); 'inside implies snapped' is asserted only on grids that divide evenly.")

NOT_YET = {}

ALL = ["C%02d" % i for i in range(1, 19)]


def main():
    checks = []
    for pid in ALL:
        if pid not in CHECKS:
            continue
        c = CHECKS[pid]
        checks.append({
            "property_id": pid,
            "quick_cmd": "./check %s quick" % pid,
            "thorough_cmd": "./check %s thorough" % pid,
            "evidence_file": "/verif/evidence/%s.json" % pid,
            "replay_cmd_template": "./check %s --replay {path}" % pid,
            "engine": "tlc+godrv",
            "level_claimed": {"category": c["category"], "text": c["text"], "design_ref": c["design_ref"]},
            "level_note": c["note"],
            "technique": c["technique"],
        })
    na = [{"property_id": p, "reason": NOT_YET.get(p, "check under construction in this session; will be claimed once its TLA+ spec is bound to the code (see DESIGN.md §7)")}
          for p in ALL if p not in CHECKS]
    m = {
        "version": 1,
        "setup_cmd": "./setup.sh",
        "hooks": {
            "guard": "verif",
            "enable": "go build -tags verif (harness module /verif/harness with replace github.com/pdok/texel => /repo; the CLI itself with -mod=readonly -tags verif)",
            "baseline_off_cmd": "cd /repo && GOFLAGS=-mod=readonly GOPROXY=off GOSUMDB=off GOTOOLCHAIN=local go test -vet=off -count=1 ./...",
            "source_commits": json.load(open(os.path.join(VERIF, "hooks_commits.json"))),
            "add_only": True,
        },
        "engines": [
            {"name": "tlc+godrv", "path": "/verif/check", "serves_properties": [c["property_id"] for c in checks],
             "kind_free_text": "TLA+ specifications in /verif/spec checked by TLC; Go driver /verif/harness/cmd/drv (built with -tags verif against /repo) replays TLC vectors into the real code and records real-code traces that TLC validates"},
        ],
        "checks": checks,
        "not_applicable": na,
        "notes": "Exit 0 held / 1 VIOLATION / 2 machinery broken. Known findings: /verif/known_findings.json.",
    }
    with open(os.path.join(VERIF, "MANIFEST.json"), "w") as fh:
        json.dump(m, fh, indent=1)
        fh.write("\n")


if __name__ == "__main__":
    main()
