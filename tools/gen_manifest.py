#!/usr/bin/env python3
"""Writes /verif/MANIFEST.json from the table below (kept in one place so it stays valid)."""
import json
import os

VERIF = os.path.dirname(os.path.dirname(os.path.abspath(__file__)))

CHECKS = {
    "C17": dict(
        category="model_checking", design_ref="DESIGN.md §7 C17",
        technique="TLA+ bit-set model of the shift/or/mask network (constants extracted from morton.go), TLC exhaustive on generators; TLC vectors replayed into ToZ/FromZ; records of the real code validated against the model by TLC; TLAPS proof of union-linearity of every stage (MortonProofs.tla); vertices inserted into point indexes deeper than 32 levels (WebMercatorQuad 21-24) must be reported when their pixel address needs 33 bits (DeepOK)",
        text="TLC checks exhaustively (17 457 generator pairs, every stage a state) that the network read out of morton.go equals bit interleaving, inverts, and commutes with the parent shift; every TLC vector is replayed through the real ToZ/FromZ, and records of the real code on random wide words (key, ok flag, MustToZ reporting, union-linearity, parent, child keys incl. parents whose children need 33 bits, decode) are judged by the same model, which lifts the generator check to all 2^64 pairs.",
        note="Trusted: Go uint is 64-bit with set-like |,&,<<,>>; the transcription of the loop bodies (bound by replay and trace records); TLC."),
}

CHECKS["C02"] = dict(
    category="model_checking", design_ref="DESIGN.md §7 C02",
    technique="TLA+ routing oracle (Grid!Route, exact half-open clip) enumerated by TLC over every lattice segment of a pixel window x hot sets; each TLC vector replayed into PointIndex.SnapClosestPoints at several quadtree placements/levels; random real-code records validated by TLC against the same oracle; per-segment steps inside SnapPolygon (SnapSteps.tla S1/S2); endpoint-pixel consistency on the built-in grids (RouteRealTrace.tla); design theorem Descent = Route",
    text="The specification defines 'closed edge meets half-open pixel' and the order of travel exactly (cross-multiplied integer fractions) and is itself cross-checked by TLC against a brute-force definition on a refined lattice. TLC enumerates every segment of the window (every tie case: endpoint on border/corner, edge along a border, edge through a corner) with several hot sets; each is replayed through the real index at 4-12 placements (different depth, origin, tile width, level, alignment to the quadtree centre and corners), and random records from larger windows are validated by TLC.",
    note="Trusted: TLC; synthetic dyadic grids convert exactly (asserted per coordinate); the non-collapsing-polygon sentence is decided by the Snap trace specification.")
CHECKS["C09"] = dict(
    category="model_checking", design_ref="DESIGN.md §7 C09",
    technique="TLA+ half-open grid predicate (Grid!InGrid/Outcome); TLC enumerates every lattice point in a 2-pixel band around all borders x vertex position x ignore flag; each vector replayed into SnapPolygon (the tile matrix alone and together with coarser ones, in either order) and InsertPoint on synthetic (incl. northing/easting documents with origin x != y) and built-in grids",
    text="Exhaustive at the border: every quarter-pixel lattice point from two pixels outside to two pixels inside each border and corner is replayed, measured from the nearest border, on synthetic grids (zero, negative and positive origin, both corner conventions, tile widths 1..256) and on NetherlandsRDNewQuad / WebMercatorQuad / NZTM2000Quad; the observed outcome (snapped / empty / OutsideGridError panic / error of InsertPoint) must equal the specified one.",
    note="Trusted: TLC; float inputs are checked to convert to the intended 1e-10 integer (else skipped and counted); 'inside implies snapped' is asserted only on grids that divide evenly.")

SNAPNOTE = 'Trusted: TLC; exact projection of the synthetic dyadic grids onto the lattice (asserted per record); the TLA+ oracle Grid!Route (cross-checked against brute force in C02). Bounded: windows of 2-10 pixels, rings up to 14-32 vertices, up to 3 tile matrices.'
CHECKS["C01"] = dict(
    category="model_checking", design_ref="DESIGN.md §7 C01",
    technique="trace validation: real SnapPolygon calls on lattice polygons recorded and judged by TLC against SnapTrace.tla (ValidPolygon antecedent and NoCrossing over all returned edge pairs, exact integer orientation tests); Dedupe.tla: kmpDeduplicate transcribed, TLC-checked on every label sequence, each replayed through the real function (DedupeTrace.tla)",
    text="Every returned edge pair of every tile matrix of thousands (quick) to >10^5 (thorough) real calls on valid, tie-rich polygons is tested for a proper crossing by TLC; validity of the input is itself a TLA+ predicate. A failing record is re-executed against the current code before it is reported.",
    note=SNAPNOTE)
CHECKS["C04"] = dict(
    category="model_checking", design_ref="DESIGN.md §7 C04",
    technique="trace validation against SnapTrace.tla: vertices are centres of input-vertex pixels, edge sample points within half a pixel of the input boundary (exact closed-box clip), coverage equivalence at all pixel centres/corners farther than one pixel from the boundary; known finding F13 keyed by the TLC-computed predicate RepeatsDirectedEdge on the routed boundary",
    text="The three clauses of the property are three TLC invariants evaluated on every recorded call at every requested level; sample locations cover the whole window plus two pixels. Inputs include multi-turn spiral corridors thinner than a pixel (where the code fails: finding F13, suppressed only when the coverage clause fails solely at levels whose routed boundary repeats a directed edge).",
    note=SNAPNOTE + " Edge clause sampled at end points and mid points of output edges.")
CHECKS["C05"] = dict(
    category="model_checking", design_ref="DESIGN.md §7 C05",
    technique="trace validation against SnapTrace.tla: ring structure/orientation/collapse-policy invariant on every record, and the keep/no-keep relation between the two runs of each input (TLC decides which records pair up); SplitRing.tla: splitRing transcribed (stack of partial rings, panic guard, classification), TLC-checked on every closed label sequence x hit-multiple set, each replayed through the real function (SplitRingTrace.tla)",
    text="Arbitrary (mostly invalid) vertex sequences and valid polygons are each snapped with keep-points-and-lines off and on and reverse toggled; TLC checks shell-first, orientation by sign of area (flipped under reverse), no repeated vertex, minimum size, no empty list, keys, and that the keep run equals the no-keep run followed by 1-2-vertex rings.",
    note=SNAPNOTE + " Real-grid float effects (finding F4) are checked by the real-grid part of the check.")
CHECKS["C06"] = dict(
    category="model_checking", design_ref="DESIGN.md §7 C06",
    technique="trace validation against SnapTrace.tla (a panic is a record with out # ok, i.e. no enabled behaviour; time bound as invariant) on adversarially repetitive vertex sequences; Kmp.tla: kmpTable / kmpSearch / kmpSearchAll as a TLA+ state machine (index safety, per-iteration progress, relation to the true search) with every TLC vector replayed into the real kmpSearchAll (KmpTrace.tla); Chains.tla label sequences through the real kmpDeduplicate",
    text="Thousands to 10^5 arbitrary in-grid vertex sequences from small point pools (repeated vertices, spikes, zig-zags, rings of 0-2 points, several rings), every flag combination and level set, each call under recover and timed.",
    note=SNAPNOTE + " The time bound is a loose cubic (no hang), wall clock measured by the driver.")
CHECKS["C07"] = dict(
    category="model_checking", design_ref="DESIGN.md §7 C07",
    technique="trace validation against SnapTrace.tla: relational invariants over the records of one input (repeated call, second process, reversed rings, reverse flag); input equality decided by TLC; the repeated call snaps the SAME polygon value again and the input must be left untouched (C07_InputUntouched)",
    text="Each input is snapped twice in-process and once in a separate process, with each ring direction changed and with the reverse flag toggled; TLC demands identical results, resp. ring-wise (cyclically) reversed results.",
    note=SNAPNOTE)
CHECKS["C08"] = dict(
    category="model_checking", design_ref="DESIGN.md §7 C08",
    technique="trace validation against SnapTrace.tla: every non-empty subset of the tile matrices of a round grid requested for the same input; per-tile-matrix equality and key containment as invariants",
    text="For every input all non-empty subsets of its 2-3 tile matrices are requested in separate calls; TLC requires the same presence and geometry per tile matrix in all of them and no key outside the request.",
    note=SNAPNOTE)
CHECKS["C18"] = dict(
    category="model_checking", design_ref="DESIGN.md §7 C18",
    technique="trace validation against SnapTrace.tla: TLC routes the boundary itself, evaluates the at-most-twice antecedent, and checks edge-is-run, holes-in-shell and signed-area equality on the recorded result; intermediate results of addPointsAndSnap validated against the contract of the Snap machine (SnapSteps.tla S3-S6); Assemble.tla: the code's assembly stage (dedupeInnersOuters, matchInnersToPolygons) transcribed, TLC-checked against the reference on enumerated loop configurations, every configuration replayed through the real functions (AssembleTrace.tla)",
    text="Collapse-prone valid polygons (slivers, combs, necks, frames, serpentines, shells with long sloped edges and a courtyard, holes touching one part of a split shell with all vertices); vacuity is guarded: the evidence counts (record, level) pairs where the antecedent holds and some centre is visited twice, and the check is broken below a floor.",
    note=SNAPNOTE)

PIPENOTE = "Trusted: TLC; fake source/targets and the tagged polygon function of the harness; events logged under one mutex by the stepping process, hand-overs inferred by TLC with unbounded channel capacity (so buffered refactorings are not rejected). Bounded design model: <=3 features x <=3 targets x all outcome maps, capacity 0 and 2, 1-2 tables."
CHECKS["C10"] = dict(
    category="model_checking", design_ref="DESIGN.md §7 C10",
    technique="TLA+ model of the goroutine pipeline (Pipeline.tla) checked exhaustively by TLC; event logs of the real ProcessFeatures validated against PipelineTrace.tla (payload, order, routing guards; unlogged hand-overs inferred); TLC-generated schedules (PipelineSched.tla, -simulate) enforced on the real goroutines through gates and the resulting log validated again; Apalache proves the inductive invariant of the counting skeleton (PipelineInt.tla, refined by Pipeline.tla) for tables of any length and every channel capacity",
    text="TLC explores every interleaving of reader, snapper, router and writers for all outcome maps of small streams (prefix / at-return invariants), and every recorded run of the real pipeline (random streams of polygons, multipolygons and other geometries, 1-5 targets, GOMAXPROCS 1-16, delay policies) must be a behaviour of the same specification, with attribute tuples, geometry class and per-target geometry tags checked at every delivery.",
    note=PIPENOTE)
CHECKS["C11"] = dict(
    category="model_checking", design_ref="DESIGN.md §7 C11",
    technique="TLC: safety, deadlock freedom and termination under weak fairness of Pipeline.tla (unbuffered and buffered); trace validation of real runs where Return is only enabled after every TgtDone, with hang / leaked-goroutine / panic facts never accepted; one writer's completion is held to expose a premature return; TLC-generated schedules (PipelineSched.tla) enforced on the real goroutines through gates - a gate that is never reached within 5 s is a Hang; runs with the real GeoPackage source and targets from a race-detector build (GpkgPipeTrace.tla; no return within 120 s is a hang); Apalache: return-only-after-everything-is-done and no-send-on-a-closed-channel as consequences of the inductive invariant of PipelineInt.tla, for any stream length",
    text="Design: every interleaving for small constants including the caller's re-assignment of the table between runs. Code: each real run is validated against the trace specification; a run that does not finish within 20 s with its goroutines blocked in processing.* is recorded as a Hang event, goroutines left behind as a non-zero leak count - neither is a behaviour of the specification.",
    note=PIPENOTE + " Data-race freedom of the real GeoPackage writers is observed by the race detector in the C12/C13 drivers and logged as a fact.")

CHECKS["C12"] = dict(
    category="model_checking", design_ref="DESIGN.md §7 C12",
    technique="TLA+ model of the paged writer (Paging.tla: Recv / FlushFull / FlushFinal) checked exhaustively by TLC; observations of a real TargetGeopackage (row counts after every send via a second SQLite connection, final rows/rtree/extent/schema) validated against PagingTrace.tla; Apalache proves the inductive invariant of the counting skeleton (PagingInt.tla, refined by Paging.tla) for every page size and feature count",
    text="Design: all page sizes 1..4 x counts 0..13 x empty-geometry subsets (conservation, pages full, completeness, termination). Code: for every page size 1..5 (1..12 thorough) and every count 0..3P+1 a random source table (polygon / multipolygon / point / linestring / multipoint / multilinestring, empty geometries, NULL attribute values, a spatial reference system whose id differs from its organisation code) is read by the real SourceGeopackage and written by the real TargetGeopackage; the observation sequence must be a behaviour of the specification, whose final guard demands one row per feature in order with intact values, the exact spatial-index id set, the exact integer extent and matching schema metadata.",
    note="Trusted: TLC; the verif-tagged SQLite stub for libspatialite; DeepEqual comparison of values/geometries in the harness; SQLite itself.")

CHECKS["C13"] = dict(
    category="model_checking", design_ref="DESIGN.md §7 C13",
    technique="TLA+ model of the tool (Cli.tla: validation gate, target naming on character sequences, overwrite, per-table loop) checked by TLC; every run of the real binary recorded with the library's own results and judged by CliTrace.tla; TLC-enumerated safe target paths replayed through the binary; the deviation the tool reports at validation must be the one of the deepest requested tile matrix (CliTrace!DeviationReported, last sentence of C03)",
    text="Design: file-system state machine for all flag / pre-existing-file / validation / outside-grid combinations. Code: the real binary (built from the working tree with the verif tag) runs on random multi-table sources; TLC decides from the recorded facts which files must exist (TargetPath on characters), which rows in which order each table must hold, the geometry class, and that each polygon row's geometry is the library's result for THAT file's tile matrix; 24-300 of the 2028 TLC path vectors are each run through the binary.",
    note="Trusted: TLC; the harness's direct library call as oracle (as the property states); DeepEqual geometry/attribute comparison; SQLite stub for libspatialite.")

CHECKS["C14"] = dict(
    category="model_checking", design_ref="DESIGN.md §7 C14",
    technique="TLA+ definition of a true quadtree and of the validation's order of checks (TmsQuad.tla), TLC: all single-field perturbations at every level of an accepted set; real validation verdicts for the 14 built-in sets and ~2300 perturbed sets judged by TLC from an abstract projection of each document (TmsQuadTrace.tla); built-in verdicts also observed through the real binary",
    text="For each of the 7 accepted built-in sets, 15 kinds of single-field perturbation are applied at every tile matrix; TLC computes the verdict the property demands from the harness's abstract projection (square, ids, origin/corner equality, doubling, cell ratio class, variable widths) and compares it with what DeviationStats + IsQuadTree answered (error / ok / panic); pixel size used vs cellSize/16 is checked for every matrix of every accepted set.",
    note="Trusted: TLC; the abstract projection (exact rationals for the cell-size ratio); composition of the two library calls as in package main, cross-checked through the binary for built-ins.")
CHECKS["C15"] = dict(
    category="model_checking", design_ref="DESIGN.md §7 C15",
    technique="integer TLA+ model of FromNative / ToNative / bounding box for both corner conventions checked exhaustively by TLC (TileAddr.tla); ~19000 records of the real functions on all built-in sets and matrices (plus synthetic northing/easting documents) judged by TileAddrTrace.tla, the expected x,y order taken from the document's own orderedAxes; Apalache establishes the same rules without bounds (TileAddrInt.tla)",
    text="Design: every matrix up to 4x3, both corner conventions, 9 origins, every tile and 9 interior points: point-in-tile finds its tile, outside finds none, bounding box spans the corners. Code: for every built-in set, every matrix without variable widths, corner/border/sampled tiles x interior points, outside points, corner positions against origin + index x tile size in x,y order.",
    note="Trusted: TLC; float tolerance 16 ulp + 1e-8 (the API rounds to 9 decimals).")

CHECKS["C03"] = dict(
    category="model_checking", design_ref="DESIGN.md §7 C03",
    technique="trace validation (RealTrace.tla): SnapPolygon calls on all 7 accepted built-in sets; per returned coordinate the harness computes from the JSON document with exact rationals the distance to the ideal pixel centre, and TLC compares it with the deviation the tool reports (+2 ulp); exact-centre check on synthetic grids with tile widths 1..256; the deviation printed by the real binary is bound in C13 (CliTrace!DeviationReported); design lemmas on the level arithmetic by TLC (LevelArith.tla) and, without bounds, by Apalache (LevelArithInt.tla)",
    text="Every built-in set accepted by validation, ids 0..20 in random subsets of 1-3 (and ids beyond quadtree level 32), polygons at random places including the origin corner and near the far corner. Four TLC passes: all sets within deviation + document-inconsistency term; the four sets with exact documents strictly within the deviation; the three sets of known finding F8 are confirmed to exceed only by the document-inconsistency term; deep ids fall under known finding F9. A wrong level offset, factor 16 or origin corner is off by a large fraction of a pixel and fails every pass.",
    note="Trusted: TLC; math/big computation of index/offset/ulp from the document text; DeviationStats as the source of the reported deviation (as the property names it).")

CHECKS["C16"] = dict(
    category="model_checking", design_ref="DESIGN.md §7 C16",
    technique="TLA+ mutation machine over abstract documents (TmsJson.tla) enumerated by TLC to depth 1-2 with the class the property assigns (must-reject / must-not-panic); every abstract document applied to all 14 built-in JSON documents and the real decoder/encoder outcome judged by TmsJsonTrace.tla",
    text="152 one-deep and 11 040 two-deep mutated documents x 14 built-in documents: outcome error/ok/panic, round-trip equality and byte-stable second encoding for accepted documents, semantic equality of the re-encoded built-ins with their source. This is the weakest fit of the technique (DESIGN §9): the specification contributes the enumeration and the verdict table, JSON value equality is a harness fact.",
    note="Trusted: TLC; the harness's application of abstract mutations to concrete JSON; encoding/json for JSON equality.")

NOT_YET = {}

ALL = ["C%02d" % i for i in range(1, 19)]


def main():
    checks = []
    for pid in ALL:
        if pid not in CHECKS:
            continue
        c = CHECKS[pid]
        checks.append({
            "property_id": pid,
            "quick_cmd": "./check %s quick" % pid,
            "thorough_cmd": "./check %s thorough" % pid,
            "evidence_file": "/verif/evidence/%s.json" % pid,
            "replay_cmd_template": "./check %s --replay {path}" % pid,
            "engine": "tlc+godrv",
            "level_claimed": {"category": c["category"], "text": c["text"], "design_ref": c["design_ref"]},
            "level_note": c["note"],
            "technique": c["technique"],
        })
    na = [{"property_id": p, "reason": NOT_YET.get(p, "check under construction in this session; will be claimed once its TLA+ spec is bound to the code (see DESIGN.md §7)")}
          for p in ALL if p not in CHECKS]
    m = {
        "version": 1,
        "setup_cmd": "./setup.sh",
        "hooks": {
            "guard": "verif",
            "enable": "go build -tags verif (harness module /verif/harness with replace github.com/pdok/texel => /repo; the CLI itself with -mod=readonly -tags verif)",
            "baseline_off_cmd": "cd /repo && GOFLAGS=-mod=readonly GOPROXY=off GOSUMDB=off GOTOOLCHAIN=local go test -vet=off -count=1 ./...",
            "source_commits": json.load(open(os.path.join(VERIF, "hooks_commits.json"))),
            "add_only": True,
        },
        "engines": [
            {"name": "tlc+godrv", "path": "/verif/check", "serves_properties": [c["property_id"] for c in checks],
             "kind_free_text": "TLA+ specifications in /verif/spec checked by TLC; Go driver /verif/harness/cmd/drv (built with -tags verif against /repo) replays TLC vectors into the real code and records real-code traces that TLC validates; unbounded design obligations by Apalache (PagingInt, PipelineInt, TileAddrInt, LevelArithInt) and TLAPS (MortonProofs) run inside the same checks"},
        ],
        "checks": checks,
        "not_applicable": na,
        "notes": "Exit 0 held / 1 VIOLATION / 2 machinery broken. Known findings: /verif/known_findings.json.",
    }
    with open(os.path.join(VERIF, "MANIFEST.json"), "w") as fh:
        json.dump(m, fh, indent=1)
        fh.write("\n")


if __name__ == "__main__":
    main()
