#!/usr/bin/env python3
"""tools/mkseedprompt.py <round> <property id>... : writes /tmp/out<round>_<id>/prompt.txt (the property's text + the needs of the changes
already kept for it, nothing else of /verif) and adds a scratch worktree /tmp/wt<round>_<id> of /repo for a fresh sub-agent."""
import glob
import json
import os
import subprocess
import sys

V = os.path.dirname(os.path.dirname(os.path.abspath(__file__)))
props = {json.loads(l)["id"]: json.loads(l) for l in open(os.path.join(V, "properties.jsonl"))}
tmpl = open(os.path.join(V, "tools", "seed_prompt_template.txt")).read()
rnd = sys.argv[1]
for pid in sys.argv[2:]:
    p = props[pid]
    known = []
    for m in sorted(glob.glob(os.path.join(V, "seeded", pid + "-*", "meta.json"))):
        d = json.load(open(m))
        known.append("- %s: %s" % (d["id"].split("-", 1)[1].replace("-", " "), d.get("needs_to_manifest", "")))
    t = tmpl.replace("@R@", rnd).replace("@ID@", pid).replace("@PROPERTY@", p["statement"] + "\n\nQuantified over: " + p["quantifier"]["text"]).replace("@KNOWN@", "\n".join(known))
    os.makedirs("/tmp/out%s_%s" % (rnd, pid), exist_ok=True)
    open("/tmp/out%s_%s/prompt.txt" % (rnd, pid), "w").write(t)
    subprocess.run(["git", "-C", "/repo", "worktree", "add", "-q", "--detach", "/tmp/wt%s_%s" % (rnd, pid), "HEAD"], check=True)
    print(pid, len(known))
