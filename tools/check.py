#!/usr/bin/env python3
import importlib
import os
import sys

sys.path.insert(0, os.path.dirname(os.path.abspath(__file__)))
import vlib  # noqa: E402


def main():
    if len(sys.argv) < 3:
        print("usage: check <ID> quick|thorough | check <ID> --replay <path>")
        sys.exit(2)
    prop = sys.argv[1].upper()
    try:
        mod = importlib.import_module("checks." + prop.lower())
    except ModuleNotFoundError as e:
        print("BROKEN: no check for %s (%s)" % (prop, e))
        sys.exit(2)
    if sys.argv[2] == "--replay":
        vlib.main_wrap(lambda: mod.replay(sys.argv[3]))
    tier = sys.argv[2]
    if tier not in ("quick", "thorough"):
        tier = os.environ.get("VERIF_TIER", "quick")
    vlib.main_wrap(lambda: mod.run(tier))


if __name__ == "__main__":
    main()
