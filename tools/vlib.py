#!/usr/bin/env python3
"""Shared machinery for /verif checks: building the Go harness against /repo's working tree,
running TLC in a scratch copy of /verif/spec, known-findings matching, evidence writing.

Exit-code protocol (DESIGN.md section 6): 0 = held, 1 = VIOLATION line printed, 2 = machinery broken.
"""
import json
import os
import re
import shutil
import subprocess
import sys
import time

VERIF = os.path.dirname(os.path.dirname(os.path.abspath(__file__)))
REPO = os.environ.get("VERIF_REPO", "/repo")
SPEC = os.path.join(VERIF, "spec")
import hashlib  # noqa: E402
_TAG = "" if REPO == "/repo" else "_" + hashlib.sha1(REPO.encode()).hexdigest()[:10]
BUILD = os.path.join(VERIF, ".build" + _TAG)      # a different repository under test (VERIF_REPO, used by the seeded-change matrix) gets its own build directory
SCRATCH_ROOT = os.path.join(VERIF, ".scratch")
EVIDENCE = os.environ.get("VERIF_EVIDENCE_DIR", os.path.join(VERIF, "evidence"))
REPLAYS = os.path.join(VERIF, ".scratch", "replays")
KNOWN = os.path.join(VERIF, "known_findings.json")

GOENV = dict(os.environ)
GOENV["VERIF_REPO"] = REPO
GOENV.update({"GOFLAGS": "-mod=mod", "GOPROXY": "off", "GOSUMDB": "off", "GOTOOLCHAIN": "local",
              "CGO_ENABLED": "1"})


class Broken(Exception):
    """Machinery failure: exit 2, never a verdict."""


def log(*a):
    print(*a, flush=True)


def seed():
    try:
        return int(os.environ.get("VERIF_SEED", "1"))
    except ValueError:
        return 1


import itertools  # noqa: E402
import threading  # noqa: E402
_scratch_counter = itertools.count()
_scratch_lock = threading.Lock()


def scratch(name):
    with _scratch_lock:
        k = next(_scratch_counter)
    d = os.path.join(SCRATCH_ROOT, "%s.%d.%d" % (name, os.getpid(), k))
    shutil.rmtree(d, ignore_errors=True)
    os.makedirs(d)
    return d


def rm(d):
    shutil.rmtree(d, ignore_errors=True)


def build_harness(race=False):
    """Build the harness driver from /verif/harness against /repo's current working tree, hooks on."""
    os.makedirs(BUILD, exist_ok=True)
    out = os.path.join(BUILD, "drv_race" if race else "drv")
    hdir = os.path.join(VERIF, "harness")
    if REPO != "/repo":
        # same harness sources, module replaced by the repository under test
        hdir = os.path.join(BUILD, "harness")
        shutil.rmtree(hdir, ignore_errors=True)
        shutil.copytree(os.path.join(VERIF, "harness"), hdir)
        gm = open(os.path.join(hdir, "go.mod")).read().replace("=> /repo", "=> " + REPO)
        open(os.path.join(hdir, "go.mod"), "w").write(gm)
    # go.sum of the harness is the repository's (no network to verify anything else)
    cmd = ["go", "build", "-tags", "verif", "-o", out]
    if race:
        cmd.append("-race")
    if os.environ.get("VERIF_COVER"):
        # tools/covreport.sh: which statements of PDOK/texel do the checks execute at all (GOCOVERDIR collects the counters)
        # (the pattern github.com/pdok/texel/... matches nothing for a replaced module: list the packages)
        pk = subprocess.run(["go", "list", "-tags", "verif", "-deps", "./cmd/drv"], cwd=hdir, env=GOENV, stdout=subprocess.PIPE, text=True).stdout.split()
        # (and the counters are only written out when the main package is instrumented too)
        cmd += ["-cover", "-covermode=atomic", "-coverpkg=" + ",".join([x for x in pk if x.startswith("github.com/pdok/texel")] + ["verif/harness/cmd/drv"])]
    cmd.append("./cmd/drv")
    t0 = time.time()
    p = subprocess.run(cmd, cwd=hdir, env=GOENV, stdout=subprocess.PIPE, stderr=subprocess.STDOUT, text=True)
    if p.returncode != 0:
        raise Broken("harness does not build against %s:\n%s" % (REPO, p.stdout[-4000:]))
    log("[build] harness built in %.1fs%s" % (time.time() - t0, " (race)" if race else ""))
    return out


def build_texel_binary():
    """Build the real CLI from /repo's working tree with -tags verif (spatialite stub)."""
    os.makedirs(BUILD, exist_ok=True)
    out = os.path.join(BUILD, "texel")
    env = dict(GOENV)
    env["GOFLAGS"] = "-mod=readonly"
    cov = ["-cover", "-covermode=atomic", "-coverpkg=github.com/pdok/texel/..."] if os.environ.get("VERIF_COVER") else []
    p = subprocess.run(["go", "build", "-tags", "verif"] + cov + ["-o", out, "."], cwd=REPO, env=env,
                       stdout=subprocess.PIPE, stderr=subprocess.STDOUT, text=True)
    if p.returncode != 0:
        raise Broken("texel binary does not build:\n%s" % p.stdout[-4000:])
    return out


def run(cmd, cwd=None, timeout=None, env=None, input=None, check=False):
    p = subprocess.run(cmd, cwd=cwd, env=env or GOENV, stdout=subprocess.PIPE, stderr=subprocess.PIPE,
                       text=True, timeout=timeout, input=input)
    if check and p.returncode != 0:
        raise Broken("command failed (%d): %s\n%s\n%s" % (p.returncode, " ".join(cmd), p.stdout[-2000:], p.stderr[-4000:]))
    return p


class TLCResult:
    def __init__(self):
        self.rc = None
        self.out = ""
        self.generated = 0
        self.distinct = 0
        self.ok = False            # "Model checking completed. No error has been found."
        self.violated = None       # name of violated invariant / property, if any
        self.error = None          # other error text
        self.vecs = []             # parsed JSON vectors printed with PrintT(<<"VEC", json>>)
        self.trace_text = ""       # counterexample text
        self.wall = 0.0
        self.coverage_zero = []
        self.depth = 0


VEC_RE = re.compile(r'^<<"VEC", "(.*)">>$')
GEN_RE = re.compile(r'^(\d+) states generated, (\d+) distinct states found')
DEPTH_RE = re.compile(r'^The depth of the complete state graph search is (\d+)')
INV_RE = re.compile(r'^Error: Invariant (\S+) is violated')
PROP_RE = re.compile(r'^Error: (?:Action|Temporal) propert(?:y|ies) (\S+)?')


def _unescape_tla(s):
    # TLC prints strings with \" and \\ escapes
    return s.replace('\\"', '"').replace('\\\\', '\\')


class _Done:
    def __init__(self, rc, out):
        self.returncode, self.stdout = rc, out


def _cpu_seconds(pid):
    try:
        f = open("/proc/%d/stat" % pid).read().rsplit(")", 1)[1].split()
        return (int(f[11]) + int(f[12])) / float(os.sysconf("SC_CLK_TCK"))
    except (OSError, IndexError, ValueError):
        return None


def _run_watched(cmd, d, env, timeout, what, stall=150, retries=2):
    """Run TLC with a wall-clock time-out AND a stall watchdog: a TLC whose queue-writer thread has died (seen once under heavy load:
    every worker blocked on the state queue, the JVM alive and idle) would otherwise sit there until the time-out.  A process that uses
    no CPU at all for `stall` seconds is killed and the (deterministic) run is repeated with a fresh metadir, at most `retries` times."""
    for attempt in range(retries + 1):
        outp = os.path.join(d, "tlc_stdout_%d.txt" % attempt)
        shutil.rmtree(os.path.join(d, "meta"), ignore_errors=True)
        with open(outp, "w") as fh:
            p = subprocess.Popen(cmd, cwd=d, env=env, stdout=fh, stderr=subprocess.STDOUT)
            t0 = time.time()
            last_cpu, last_change = _cpu_seconds(p.pid), time.time()
            stalled = False
            while True:
                try:
                    p.wait(timeout=5)
                    break
                except subprocess.TimeoutExpired:
                    pass
                now = time.time()
                if now - t0 > timeout:
                    p.kill()
                    p.wait()
                    raise Broken("TLC timed out after %ss on %s" % (timeout, what))
                c = _cpu_seconds(p.pid)
                if c is None or last_cpu is None or c - last_cpu >= 0.5:
                    last_cpu, last_change = c, now
                elif now - last_change > stall:
                    stalled = True
                    p.kill()
                    p.wait()
                    break
        if not stalled:
            return _Done(p.returncode, open(outp, errors="replace").read())
        log("  TLC on %s used no CPU for %d s (hung JVM): killed, attempt %d" % (what, stall, attempt + 1))
    raise Broken("TLC hung %d times on %s" % (retries + 1, what))


def run_tlc(module, cfg, files=None, workers=None, timeout=600, simulate=None, depth=None,
            tlc_seed=None, extra=None, data=None, want_vecs=True, deque=False, coverage=False,
            keep=False, xss="256m", heap=None, gc="serial"):
    """Run TLC on /verif/spec/<module>.tla with config <cfg> in a scratch copy.
    data: dict filename -> text (trace files etc) written next to the spec.
    Returns TLCResult. Raises Broken on time-out or a TLC crash that is not a property verdict."""
    d = scratch("tlc_" + module)
    try:
        for f in os.listdir(SPEC):
            if f.endswith(".tla") or f.endswith(".cfg"):
                shutil.copy(os.path.join(SPEC, f), d)
        for name, text in (data or {}).items():
            with open(os.path.join(d, name), "w") as fh:
                fh.write(text)
        for name, path in (files or {}).items():
            shutil.copy(path, os.path.join(d, name))
        w = str(workers if workers else min(16, os.cpu_count() or 4))
        # measured here: SerialGC with a small heap is 3-4x faster (and far lighter on the kernel) than the
        # tlc wrapper's ParallelGC with a 25%-of-RAM heap for the many short runs the checks make
        cmd = ["java", "-XX:+UseParallelGC" if gc == "parallel" else "-XX:+UseSerialGC", "-Xmx" + (heap or "3g"), "-Xss" + xss]
        if deque:
            cmd.append("-Dtlc2.tool.queue.IStateQueue=StateDeque")
        # TLC unpacks its standard modules into java.io.tmpdir (one "tlc-*" directory per run, never removed): keep that in the scratch copy
        os.makedirs(os.path.join(d, "jtmp"), exist_ok=True)
        cmd.append("-Djava.io.tmpdir=" + os.path.join(d, "jtmp"))
        cmd += ["-cp", "/opt/veriftools/tla/tla2tools.jar:/opt/veriftools/tla/CommunityModules-deps.jar",
                "tlc2.TLC", "-metadir", os.path.join(d, "meta"), "-workers", w, "-config", cfg]
        if simulate:
            cmd += ["-simulate", simulate]
        if depth:
            cmd += ["-depth", str(depth)]
        if tlc_seed is not None:
            cmd += ["-seed", str(tlc_seed)]
        if coverage:
            cmd += ["-coverage", "1"]
        cmd += (extra or [])
        cmd.append(module + ".tla")
        env = dict(os.environ)
        env.pop("JAVA_TOOL_OPTIONS", None)
        t0 = time.time()
        p = _run_watched(cmd, d, env, timeout, "%s/%s" % (module, cfg))
        r = TLCResult()
        r.wall = time.time() - t0
        r.rc = p.returncode
        r.out = p.stdout
        in_trace = False
        tr = []
        for line in p.stdout.splitlines():
            if want_vecs:
                m = VEC_RE.match(line)
                if m:
                    try:
                        r.vecs.append(json.loads(_unescape_tla(m.group(1))))
                    except json.JSONDecodeError as e:
                        raise Broken("cannot parse TLC vector: %s (%s)" % (line[:200], e))
                    continue
            m = GEN_RE.match(line)
            if m:
                r.generated, r.distinct = int(m.group(1)), int(m.group(2))
            m = DEPTH_RE.match(line)
            if m:
                r.depth = int(m.group(1))
            m = INV_RE.match(line)
            if m:
                r.violated = m.group(1)
                in_trace = True
            if line.startswith("Error: Action property") or line.startswith("Error: Temporal properties"):
                r.violated = r.violated or line
                in_trace = True
            if line.startswith("Error: Deadlock reached"):
                r.violated = "Deadlock"
                in_trace = True
            if "Model checking completed. No error has been found." in line:
                r.ok = True
            if line.startswith("Error:") and r.violated is None and r.error is None:
                r.error = line
            if in_trace:
                tr.append(line)
        r.trace_text = "\n".join(tr[-400:])
        if simulate and p.returncode == 0 and r.violated is None and r.error is None:
            r.ok = True
        if not r.ok and r.violated is None:
            # includes postcondition failures ("Error: The postcondition ... was violated")
            if r.error is None:
                r.error = "TLC exited %d without verdict" % p.returncode
        return r
    finally:
        if not keep:
            rm(d)


def run_tlapm(module, timeout=900):
    """Check the proofs of /verif/spec/<module>.tla with the TLA+ proof system in a scratch copy; returns (obligations, proved)."""
    d = scratch("tlapm_" + module)
    try:
        shutil.copy(os.path.join(SPEC, module + ".tla"), d)
        try:
            p = subprocess.run(["tlapm", "--threads", "8", "--cleanfp", module + ".tla"], cwd=d, stdout=subprocess.PIPE, stderr=subprocess.STDOUT,
                               text=True, timeout=timeout)
        except subprocess.TimeoutExpired:
            raise Broken("tlapm timed out on %s" % module)
        m = re.search(r"All (\d+) obligations? proved", p.stdout)
        if m:
            return int(m.group(1)), int(m.group(1))
        m2 = re.search(r"(\d+)/(\d+) obligations? failed", p.stdout)
        raise Broken("tlapm did not prove %s: %s\n%s" % (module, m2.group(0) if m2 else "", p.stdout[-2000:]))
    finally:
        rm(d)


def run_apalache(module, init, inv, length, timeout=600, cinit=None):
    """apalache-mc check --init=<init> --inv=<inv> --length=<length> on /verif/spec/<module>.tla in a scratch copy.
    Returns the wall time; raises Broken unless Apalache reports no error (a design-level obligation, never a verdict on the code)."""
    d = scratch("apalache_" + module)
    try:
        shutil.copy(os.path.join(SPEC, module + ".tla"), d)
        jt = os.path.join(d, "jtmp")
        os.makedirs(jt, exist_ok=True)
        t0 = time.time()
        try:
            p = subprocess.run(["apalache-mc", "check"] + (["--cinit=" + cinit] if cinit else []) + ["--init=" + init, "--inv=" + inv, "--length=%d" % length, "--out-dir=" + os.path.join(d, "out"),
                                module + ".tla"], cwd=d, stdout=subprocess.PIPE, stderr=subprocess.STDOUT, text=True, timeout=timeout,
                               env=dict(os.environ, TMPDIR=jt))      # SANY unpacks the standard modules there (one directory per run, never removed)
        except subprocess.TimeoutExpired:
            raise Broken("apalache-mc timed out on %s (%s => %s)" % (module, init, inv))
        if "EXITCODE: OK" not in p.stdout:
            raise Broken("apalache-mc did not establish %s => %s (length %d) on %s:\n%s" % (init, inv, length, module, p.stdout[-2000:]))
        return round(time.time() - t0, 1)
    finally:
        rm(d)


def load_known():
    if not os.path.exists(KNOWN):
        return {"findings": [], "fixed": []}
    with open(KNOWN) as fh:
        return json.load(fh)


def known_for(prop):
    return [f for f in load_known().get("findings", []) if prop in f.get("properties", [f.get("property")])]


_replay_counter = [0]


def write_replay(prop, name, obj):
    os.makedirs(REPLAYS, exist_ok=True)
    _replay_counter[0] += 1
    path = os.path.join(REPLAYS, "%s_%s_%d_%d_%d.json" % (prop, name, int(time.time()), os.getpid(), _replay_counter[0]))
    with open(path, "w") as fh:
        json.dump(obj, fh, indent=1)
    return path


def write_evidence(prop, tier, level, coverage, wall, violations=0, assumptions=None):
    os.makedirs(EVIDENCE, exist_ok=True)
    ev = {
        "property_id": prop,
        "tier": tier,
        "seed": seed(),
        "level": level,
        "coverage": coverage,
        "assumptions": assumptions or [],
        "wall_s": round(wall, 2),
        "violations": violations,
    }
    tmp = os.path.join(EVIDENCE, prop + ".json.tmp")
    with open(tmp, "w") as fh:
        json.dump(ev, fh, indent=1, sort_keys=True)
    os.replace(tmp, os.path.join(EVIDENCE, prop + ".json"))


def replay_vectors(drv, args, vecs, timeout=3600):
    """Feed TLC vectors to a drv replay command; returns (summary dict, list of mismatch dicts)."""
    inp = "\n".join(json.dumps(x) for x in vecs) + "\n"
    p = run([drv] + args, input=inp, timeout=timeout)
    if p.returncode != 0:
        raise Broken("replay driver failed (%d): %s\n%s" % (p.returncode, " ".join(args), p.stderr[-3000:]))
    summary, mism = None, []
    for line in p.stdout.splitlines():
        o = json.loads(line)
        if o.get("summary"):
            summary = o
        elif o.get("mismatch"):
            mism.append(o)
    if summary is None:
        raise Broken("replay driver printed no summary")
    return summary, mism


def validate_records(module, cfg, trace_name, lines, data=None, workers=None, timeout=3600, max_fail=5, on_fail=None):
    """Trace validation for record-style traces (one initial state per record, variable l).
    on_fail(invariant, index, record_line) is called for each failing record; the record is then removed and TLC
    re-run so that the rest of the trace is still checked. Returns (states, n_records)."""
    lines = list(lines)
    total = len(lines)
    states = 0
    fails = 0
    while lines:
        d = dict(data or {})
        d[trace_name] = "\n".join(lines) + "\n"
        r = run_tlc(module, cfg, data=d, workers=workers, timeout=timeout, want_vecs=False)
        states += r.distinct
        if r.ok:
            break
        if r.violated:
            m = re.findall(r"(?m)^/?\\?\s*l = (\d+)", r.trace_text) or re.findall(r"l = (\d+)", r.trace_text)
            if not m:
                raise Broken("%s: cannot locate the failing record\n%s" % (module, r.out[-2000:]))
            idx = int(m[-1]) - 1
            if on_fail:
                on_fail(r.violated, idx, lines[idx])
            del lines[idx]
            fails += 1
            if fails >= max_fail:
                break
            continue
        raise Broken("%s/%s: %s\n%s" % (module, cfg, r.error, r.out[-3000:]))
    return states, total


class Verdict:
    """Collects violations / known findings for one property check."""

    def __init__(self, prop):
        self.prop = prop
        self.violations = []   # (what, replay_path)
        self.known = {}        # finding id -> (what, count)

    def violation(self, what, replay_obj, name="v"):
        path = write_replay(self.prop, name, replay_obj)
        self.violations.append((what, path))
        return path

    def known_finding(self, fid, what):
        w, n = self.known.get(fid, (what, 0))
        self.known[fid] = (w, n + 1)

    def finish(self):
        for fid, (what, n) in sorted(self.known.items()):
            log("KNOWN-FINDING: property=%s %s [%s, %d occurrence(s) this run]" % (self.prop, what, fid, n))
        if self.violations:
            seen = set()
            for what, path in self.violations[:20]:
                log("  violation: %s" % what)
                if path not in seen:
                    log("VIOLATION property=%s replay=%s" % (self.prop, path))
                    seen.add(path)
            return 1
        return 0


def main_wrap(fn):
    try:
        rc = fn()
    except Broken as e:
        log("BROKEN: %s" % e)
        sys.exit(2)
    sys.exit(rc)
