#!/usr/bin/env python3
"""tools/seedtable.py : regenerates the table of DESIGN.md §10.6 (between the SEEDTABLE markers) from seeded/*/meta.json."""
import json
import os
import re

V = os.path.dirname(os.path.dirname(os.path.abspath(__file__)))


def rows():
    out = []
    for d in sorted(os.listdir(os.path.join(V, "seeded"))):
        if not os.path.exists(os.path.join(V, "seeded", d, "meta.json")):
            continue
        m = json.load(open(os.path.join(V, "seeded", d, "meta.json")))
        def cell(x):
            return re.sub(r"\s+", " ", str(x or "—")).replace("|", "/")
        out.append("| `%s` | %s | %s | %s | %s | %s |" % (d, m.get("breaks_property", ""), m.get("round", 1), cell(m.get("needs_to_manifest")),
                                                     ", ".join(m.get("caught_by", [])), cell(m.get("strengthening_needed"))))
    return out


def main():
    p = os.path.join(V, "DESIGN.md")
    s = open(p).read()
    tbl = "\n".join(["<!-- SEEDTABLE-BEGIN -->", "| seeded change | property | round | needs to manifest | caught by (quick) | strengthening that was needed |",
                     "|---|---|---|---|---|---|"] + rows() + ["<!-- SEEDTABLE-END -->"])
    s2 = re.sub(r"<!-- SEEDTABLE-BEGIN -->.*?<!-- SEEDTABLE-END -->", lambda _: tbl, s, flags=re.S)
    open(p, "w").write(s2)
    print("%d rows" % len(rows()))


if __name__ == "__main__":
    main()
