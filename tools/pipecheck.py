"""C10 / C11: design check of Pipeline.tla and trace validation of the real processing.ProcessFeatures."""
import json
import os
import re
import subprocess
import time

import vlib
from vlib import Broken, log

INV10 = "TypeOK C10_Prefix C10_AtReturn NoSendOnClosed"
INV11 = "TypeOK C11_ReturnAfterDone C11_WriterTable NoSendOnClosed"


def design(prop, tier):
    """Exhaustive TLC run of the design for small constants; returns coverage numbers. A failure here is the
    machinery's problem (the design model is wrong or over-strict), never a verdict about the code."""
    cfgs = ["MC_Pipeline_quick.cfg"] if tier == "quick" else ["MC_Pipeline_quick.cfg", "MC_Pipeline_thorough.cfg", "MC_Pipeline_buffered.cfg"]
    states = trans = 0
    for c in cfgs:
        r = vlib.run_tlc("Pipeline", c, timeout=3600, want_vecs=False, heap="8g")
        if not r.ok:
            raise Broken("design model %s fails: %s\n%s" % (c, r.violated or r.error, r.trace_text[:3000]))
        states += r.distinct
        trans += r.generated
    return states, trans, cfgs


def design_unbounded():
    """Apalache: the inductive invariant of the counting skeleton PipelineInt.tla (which Pipeline.tla refines: property RefinesInt of
    every MC_Pipeline_*.cfg) for tables of ANY length, every channel capacity and every set of up to four targets."""
    obl = [("Init", "IndInv", 0), ("IndInit", "IndInv", 1), ("IndInit", "Complete", 0), ("IndInit", "NoSendOnClosed", 0)]
    return {"module": "PipelineInt.tla", "refined_by": "Pipeline.tla (TLC: RefinesInt, IntInvHolds in every MC_Pipeline_*.cfg)",
            "obligations": ["Init => IndInv", "IndInv /\\ Next => IndInv'", "IndInv => Complete", "IndInv => NoSendOnClosed"],
            "bounds": "none on the number of features or the channel capacity; every set of targets within 1..4",
            "wall_s": [vlib.run_apalache("PipelineInt", i, v, k, cinit="CInit") for i, v, k in obl]}


def split_runs(lines):
    runs, cur = [], []
    for ln in lines:
        if '"e":"Reset"' in ln and cur:
            runs.append(cur)
            cur = []
        cur.append(ln)
    if cur:
        runs.append(cur)
    return runs


def validate(lines, maxn, v, what_prefix, max_fail=5):
    """Validate the concatenated runs; on rejection report the run containing the first unmatched event,
    drop it and continue with the rest. Returns (states, runs_ok, runs_total)."""
    runs = split_runs(lines)
    total = len(runs)
    states = 0
    fails = 0
    cfg = "CONSTANTS N = %d  Targets = {1, 2, 3, 4, 5}\nSPECIFICATION TraceSpec\nCONSTRAINT Track\n" \
          "INVARIANTS C10_Prefix C10_AtReturn C11_ReturnAfterDone\nPOSTCONDITION TraceAccepted\nCHECK_DEADLOCK FALSE\n" % maxn
    while runs:
        flat = [ln for r in runs for ln in r]
        r = vlib.run_tlc("PipelineTrace", "PipelineTraceRun.cfg", workers=1, deque=True, timeout=3600, want_vecs=False,
                         data={"pipe_trace.ndjson": "\n".join(flat) + "\n", "PipelineTraceRun.cfg": cfg})
        states += r.distinct
        if r.ok:
            break
        m = re.search(r'<<"HWM", (\d+), (\d+)>>', r.out)
        if not m:
            raise Broken("PipelineTrace: %s\n%s" % (r.violated or r.error, r.out[-3000:]))
        hwm = int(m.group(1))
        # which run holds event number hwm (1-based)?
        k = 0
        pos = 0
        for k, rr in enumerate(runs):
            if pos + len(rr) >= hwm:
                break
            pos += len(rr)
        bad = runs[k]
        ev = flat[hwm - 1] if hwm - 1 < len(flat) else "(end of trace)"
        head = json.loads(bad[0])
        v.violation("%s: event %s of run %s (n=%s targets=%s delay=%s procs=%s) is not a behaviour of Pipeline.tla: %s"
                    % (what_prefix, hwm - pos, head.get("run"), head.get("n"), head.get("targets"), head.get("delay"), head.get("procs"), ev[:300]),
                    {"kind": "pipe-run", "rejected_event_index_in_run": hwm - pos, "rejected_event": ev, "events": [json.loads(x) for x in bad]},
                    name="pipe")
        fails += 1
        del runs[k]
        if fails >= max_fail:
            break
    return states, total - fails, total


def run_pipe_property(prop, tier):
    t0 = time.time()
    v = vlib.Verdict(prop)
    dstates, dtrans, cfgs = design(prop, tier)
    unbounded = design_unbounded()
    drv = vlib.build_harness()
    maxn = 40 if tier == "quick" else 200
    nruns = 150 if tier == "quick" else 1500
    seeds = [vlib.seed()] if tier == "quick" else [vlib.seed(), vlib.seed() + 100, vlib.seed() + 200]
    d = vlib.scratch(prop.lower() + "pipe")
    lines = []
    try:
        for sd in seeds:
            out = os.path.join(d, "p%d.ndjson" % sd)
            p = vlib.run([drv, "pipe-trace", "-seed", str(sd), "-runs", str(nruns), "-maxn", str(maxn), "-out", out], timeout=3600)
            got = open(out).read().splitlines() if os.path.exists(out) else []
            if p.returncode != 0:
                # a panic in one of the pipeline's own goroutines (or a fatal runtime error) kills the driver: that is an observation
                # of the run announced by the last Reset record, not a failure of the machinery
                crashed = ("panic:" in p.stderr or "fatal error:" in p.stderr) and "texel/processing" in p.stderr
                if not crashed or not got:
                    raise Broken("pipe-trace failed: " + p.stderr[-3000:])
                k = max(i for i, ln in enumerate(got) if '"e":"Reset"' in ln)
                msg = [x for x in p.stderr.splitlines() if x.startswith("panic:") or x.startswith("fatal error:")][:1]
                got = got[:k + 1] + [json.dumps({"e": "Crash", "msg": (msg or ["process died"])[0][:300]})]
            lines += got
    finally:
        vlib.rm(d)
    tstates, ok_runs, total_runs = validate(lines, maxn, v, "real ProcessFeatures")
    # R: schedules generated by TLC (simulation of Pipeline.tla with unbuffered channels) enforced on the real pipeline through gates
    sched_n, sched_states = schedule_replay(drv, tier, v)
    tstates += sched_states
    gp = gpkg_pipe_part(prop, tier, v)
    heads = [json.loads(x) for x in lines if '"e":"Reset"' in x]
    cov = {
        "states": dstates + tstates, "transitions": dtrans + tstates,
        "traces_validated_against_impl": total_runs,
        "samples": [json.loads(x) for x in lines[:12]],
        "design_models": cfgs, "design_states": dstates, "apalache": unbounded, "trace_events": len(lines), "runs": total_runs,
        "runs_accepted": ok_runs, "tlc_schedules_enforced_on_the_real_pipeline": sched_n,
        "real_geopackage_runs_under_race_detector": gp,
        "empty_streams": sum(1 for h in heads if h["n"] == 0),
        "max_stream": max([h["n"] for h in heads] or [0]),
        "targets_hist": {str(k): sum(1 for h in heads if len(h["targets"]) == k) for k in range(1, 6)},
        "delay_policies": sorted({h["delay"] for h in heads}), "gomaxprocs": sorted({h["procs"] for h in heads}),
        "rule": "random streams (0..%d features; polygon / multipolygon (1-3 parts) / other geometry; per part and target 0-3 polygons returned), "
                "1-5 targets, GOMAXPROCS 1/2/4/16, delay policies (slow reader / snapper / targets / jitter), one target's completion held "
                "for 30 ms to expose a premature return; every run's event log must be a behaviour of Pipeline.tla (hand-overs inferred)" % maxn,
    }
    rc = v.finish()
    vlib.write_evidence(prop, tier, "model_checking", cov, time.time() - t0, violations=len(v.violations),
                        assumptions=["fake source/targets and a tagged polygon function stand in for GeoPackages and snapping",
                                     "events are logged under one mutex by the process that performs the step; hand-overs are unlogged and inferred with unbounded channel capacity"])
    return rc


def schedule_replay(drv, tier, v):
    # measured: N = 5 / 3 targets and N = 4 / 4 targets simulate 1000 behaviours a minute; N = 6 / 4 targets takes 14 s per behaviour
    # (TLC enumerates every initial state - all outcome maps - before it simulates), so the thorough tier uses two mid-sized sets
    if tier == "quick":
        sets = [(300, 4, "", "0, 1, 2, 3, 4", "")]
    else:
        sets = [(2000, 5, "", "0, 1, 2, 3, 4, 5", ""), (2000, 4, ", 4", "0, 1, 2, 3, 4", ", {1, 2, 3, 4}, {4}")]
    num = sum(x[0] for x in sets)
    vecs = []
    for (n_, N, t4, nch, tg4) in sets:
        cfg = ("CONSTANTS N = %d  Targets = {1, 2, 3%s}  Cap = 0  NT = 1  NChoices = {%s}  TgChoices = {{1}, {1, 2}, {1, 2, 3}, {2, 3}%s}\n"
               "SPECIFICATION SSpec\nINVARIANTS Emit C10_Prefix C10_AtReturn C11_ReturnAfterDone\nCHECK_DEADLOCK FALSE\n" % (N, t4, nch, tg4))
        r = vlib.run_tlc("PipelineSched", "PS.cfg", workers=1, simulate="num=%d" % n_, depth=400, tlc_seed=vlib.seed(), timeout=3600,
                         data={"PS.cfg": cfg})
        if r.violated or r.error:
            raise Broken("PipelineSched simulation: %s\n%s" % (r.violated or r.error, r.out[-2000:]))
        vecs += r.vecs
    scheds = []
    seen = set()
    for x in vecs:
        k = json.dumps(x, sort_keys=True)
        if k not in seen:
            seen.add(k)
            scheds.append(k)
    if len(scheds) < num // 4:
        raise Broken("only %d distinct schedules from %d simulated behaviours" % (len(scheds), num))
    lines = []
    rest = scheds
    hangs = 0
    while rest and hangs < 3:       # (every hang costs the driver's 5 s time-out: three are enough to report)
        p = vlib.run([drv, "pipe-sched"], input="\n".join(rest) + "\n", timeout=3600)
        if p.returncode != 0:
            raise Broken("pipe-sched failed: " + p.stderr[-2000:])
        got = [x for x in p.stdout.splitlines() if x.startswith("{")]
        lines += got
        nres = sum(1 for x in got if '"e":"Reset"' in x)
        if any('"e":"Hang"' in x for x in got):
            hangs += 1
            rest = rest[nres:]      # the driver stops at a hang (its goroutines are stuck): continue with the remaining schedules
        else:
            rest = []
    st, ok, tot = validate(lines, 40, v, "real ProcessFeatures under a TLC schedule")
    return tot, st


def gpkg_pipe_part(prop, tier, v):
    """The pipeline with real GeoPackage source/targets from a -race build: rows, per-target geometry, race reports."""
    drv = vlib.build_harness(race=True)
    cases = [(3, 2, 150, 7), (2, 2, 90, 1), (4, 4, 120, 1000), (6, 1, 60, 3), (3, 3, 120, 1), (7, 2, 150, 1), (5, 4, 150, 1), (2, 1, 300, 1)] if tier == "quick" else \
            [(t, e, c, p) for t in (2, 3, 5, 7) for e in (1, 2, 3, 4, 6) for (c, p) in ((150, 7), (400, 1), (300, 1000))]
    recs = []
    cases = [c + (0,) for c in cases] + [(2, 2, 30, 5, 3)] + ([(3, 1, 40, 1, 7)] if tier == "thorough" else [])   # last: a read fault at row k
    for i, (nt, extra, count, page, fault) in enumerate(cases):
        d = vlib.scratch("gpkgpipe")
        try:
            env = dict(vlib.GOENV)
            env["GORACE"] = "halt_on_error=0"
            try:
                p = vlib.run([drv, "gpkg-pipe", "-dir", d, "-seed", str(vlib.seed() * 31 + i), "-targets", str(nt), "-extra", str(extra),
                              "-count", str(count), "-p", str(page), "-fault", str(fault)], timeout=120, env=env)
            except subprocess.TimeoutExpired:
                # the pipeline never returned: an observation (Finished fails), and no point in waiting for the other cases too
                recs.append({"e": "GpkgPipe", "targets": nt, "extra": extra, "expected": count, "rows": [], "wrong_geom": 0, "disorder": 0,
                             "other_expected": count // 3, "other_rows": [], "status": "hang: no return within 120 s", "races": 0,
                             "fault": fault, "fault_expected": 2 * fault, "fault_rows": [],
                             "case": {"targets": nt, "extra": extra, "count": count, "pagesize": page}})
                break
        finally:
            vlib.rm(d)
        ls = [x for x in p.stdout.splitlines() if x.startswith("{")]
        if not ls and "/verif/harness/cmd/drv" in p.stderr.split("texel/")[0][-3000:] and "panic:" in p.stderr:
            # the harness itself panicked before or outside the code under test: machinery failure, not an observation
            first = [x for x in p.stderr.splitlines() if x.startswith("panic:")][:1]
            frames = [x for x in p.stderr.splitlines() if x.startswith("main.") or x.startswith("github.com/pdok/texel")]
            if frames and frames[0].startswith("main."):
                raise Broken("gpkg-pipe driver panicked in the harness: %s\n%s" % (first, p.stderr[-1500:]))
        if ls:
            rec = json.loads(ls[-1])
            rec["status"] = "ok"
        else:
            rec = {"e": "GpkgPipe", "targets": nt, "extra": extra, "expected": count, "rows": [], "wrong_geom": 0, "disorder": 0,
                   "other_expected": count // 3, "other_rows": [], "status": "died: " + p.stderr[-300:],
                   "fault": fault, "fault_expected": 2 * fault, "fault_rows": []}
        rec["races"] = p.stderr.count("WARNING: DATA RACE")
        rec["case"] = {"targets": nt, "extra": extra, "count": count, "pagesize": page, "fault": fault}
        recs.append(rec)

    def on_fail(inv, idx, line):
        r = json.loads(line)
        v.violation("real GeoPackage pipeline (%s): %s fails: races=%s wrong_geom=%s rows=%s status=%s"
                    % (r["case"], inv, r["races"], r["wrong_geom"], r["rows"], r["status"][:200]),
                    {"kind": "gpkg-pipe", "invariant": inv, "record": r}, name="gpkgpipe")
    vlib.validate_records("GpkgPipeTrace", "GpkgPipeTrace.cfg", "gpkgpipe_trace.ndjson", [json.dumps(r) for r in recs], on_fail=on_fail, workers=2)
    return len(recs)


def replay(path):
    o = json.load(open(path))
    if o.get("kind") == "gpkg-pipe":
        print(json.dumps(o, indent=1)[:2000])
        v = vlib.Verdict("replay")
        gpkg_pipe_part("C11", "quick", v)
        return v.finish()
    v = vlib.Verdict("replay")
    lines = [json.dumps(e) for e in o["events"]]
    n = max(40, o["events"][0].get("n", 0))
    st, ok, tot = validate(lines, n, v, "recorded run")
    print("recorded run %s by PipelineTrace" % ("REJECTED again" if v.violations else "accepted"))
    return 1 if v.violations else 0
