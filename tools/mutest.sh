#!/bin/sh
# tools/mutest.sh <patch.diff> <ID> [<ID>...] : apply a seeded change to /repo, run the repo tests and the
# listed quick checks, and always restore /repo afterwards.
P="$1"; shift
cd /repo || exit 2
if ! git diff --quiet; then echo "/repo has local changes"; exit 2; fi
git apply "$P" || { echo "patch does not apply"; exit 2; }
trap 'git -C /repo checkout -- . ; git -C /repo status --short; (cd /verif/harness && . /verif/tools/env.sh && go build -tags verif -o /verif/.build/drv ./cmd/drv)' EXIT
export GOFLAGS=-mod=readonly GOPROXY=off GOSUMDB=off GOTOOLCHAIN=local
if go build ./... && go test -vet=off -count=1 ./... >/tmp/mutest.$$ 2>&1; then echo "[mutest] repo tests PASS with the change"; else echo "[mutest] repo tests FAIL with the change"; tail -5 /tmp/mutest.$$; fi
rm -f /tmp/mutest.$$
cd /verif
for id in "$@"; do
  echo "=== $id"; ./check "$id" ${TIER:-quick} 2>&1 | grep -E "VIOLATION|KNOWN-FINDING|BROKEN|violation:" | head -${LINES_MAX:-6}; echo "rc=$?"
done
