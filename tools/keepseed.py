#!/usr/bin/env python3
"""tools/keepseed.py <src dir> <seed id> <property> <caught_by> <needs> [<strengthening>]
Copies patch.diff, the demonstration and the agent's notes into /verif/seeded/<seed id>/ and writes meta.json."""
import glob
import json
import os
import shutil
import sys

src, sid, prop, caught, needs = sys.argv[1:6]
strengthen = sys.argv[6] if len(sys.argv) > 6 else ""
dst = os.path.join(os.path.dirname(os.path.dirname(os.path.abspath(__file__))), "seeded", sid)
os.makedirs(dst, exist_ok=True)
for f in glob.glob(os.path.join(src, "*")):
    if os.path.isfile(f) and os.path.getsize(f) < 200000 and not f.endswith(".log"):
        shutil.copy(f, dst)
meta = {
    "id": sid, "breaks_property": prop,
    "origin": "written by an independent sub-agent that saw only the property text and a scratch worktree of /repo",
    "needs_to_manifest": needs,
    "confirmed": "tools/evalseed.sh: in a scratch worktree of /repo the patched tree builds and passes the 146 repository tests; the demonstration passes on the clean tree and fails with the patch",
    "ran": "tools/evalseed.sh %s %s  (applies the patch to /repo, runs ./check <ID> quick, restores /repo)" % (src, caught.replace(",", " ")),
    "caught_by": caught.split(",") if caught else [],
    "strengthening_needed": strengthen,
}
json.dump(meta, open(os.path.join(dst, "meta.json"), "w"), indent=1)
print("kept", dst)
