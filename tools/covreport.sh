#!/bin/sh
# tools/covreport.sh [tier] : which statements of PDOK/texel do the checks execute at all?  Builds the harness and the CLI with
# Go's coverage instrumentation (VERIF_COVER), runs every check of the tier, and prints per-function statement coverage of the
# non-test code of /repo.  Code that no check executes is code the conformance step says nothing about (DESIGN.md §10.7).
cd /verif || exit 2
. tools/env.sh
T=${1:-quick}
D=$(mktemp -d /tmp/verifcov.XXXXXX)
export VERIF_COVER=1 GOCOVERDIR=$D/cov VERIF_EVIDENCE_DIR=$D/ev
mkdir -p $D/cov $D/ev
for id in C01 C02 C03 C04 C05 C06 C07 C08 C09 C10 C11 C12 C13 C14 C15 C16 C17 C18; do
  ./check $id $T >/dev/null 2>&1; echo "$id rc=$?"
done
go tool covdata textfmt -i=$D/cov -o $D/cov_all.txt 2>&1 | tail -3
grep -E "^mode:|^github.com/pdok/texel/" $D/cov_all.txt > $D/cov.txt
(cd /repo && GOFLAGS=-mod=readonly go tool cover -func=$D/cov.txt) | grep -v "verif_" > /verif/coverage/coverage_$T.txt
python3 - $D/cov.txt > /verif/coverage/uncovered_$T.txt <<'PY'
import sys, collections
hit = collections.defaultdict(int)
for l in open(sys.argv[1]):
    if l.startswith("mode:"):
        continue
    blk, n, c = l.rsplit(" ", 2)
    hit[blk] += int(c)
for blk in sorted(hit, key=lambda b: (b.split(":")[0], float(b.split(":")[1].split(",")[0]))):
    if hit[blk] == 0 and "verif_" not in blk:
        print(blk)
PY
tail -1 /verif/coverage/coverage_$T.txt
unset VERIF_COVER
rm -rf $D /verif/.build/drv /verif/.build/drv_race /verif/.build/texel
