#!/bin/sh
# tools/evalseed.sh <dir with patch.diff + demo *_test.go> <check ids...>
# 1. confirm in a scratch worktree: repo tests pass with the patch, the demo passes without and fails with it
# 2. run the listed quick checks against /repo with the patch applied (and restore /repo)
D="$1"; shift
. /verif/tools/env.sh
export GOFLAGS=-mod=mod
WT=/tmp/ev_$$
git -C /repo worktree add -q --detach $WT HEAD || exit 2
trap "git -C /repo worktree remove --force $WT 2>/dev/null; rm -rf $WT" EXIT
res=""
(cd $WT && (git apply "$D/patch.diff" || git apply -3 "$D/patch.diff") && go build ./... && go test -vet=off -count=1 ./... >/tmp/ev_suite.$$ 2>&1); rcs=$?
(cd $WT && git checkout -q -- . )
pkgdir(){ pkg=$(grep -m1 '^package ' "$1" | awk '{print $2}' | sed 's/_test$//'); case "$pkg" in gpkg) echo processing/gpkg;; main) echo .;; *) echo $pkg;; esac; }
for f in "$D"/*_test.go; do [ -f "$f" ] && cp "$f" "$WT/$(pkgdir "$f")/"; done     # helpers shared by several demos come along
for f in "$D"/*_test.go; do
  [ -f "$f" ] || continue
  grep -qE '^func Test' "$f" || continue
  dir=$(pkgdir "$f")
  tags=""; grep -q 'go:build verif' "$f" && tags="-tags verif"
  name=$(basename "$f")
  funcs=$(grep -oE '^func (Test[A-Za-z0-9_]+)' "$f" | awk '{print $2}' | paste -sd'|')
  (cd $WT && go test $tags -vet=off -count=1 -run "^($funcs)\$" ./$dir/ >/tmp/ev_clean.$$ 2>&1); rc0=$?
  (cd $WT && (git apply "$D/patch.diff" || git apply -3 "$D/patch.diff")) || { echo "PATCH DOES NOT APPLY"; exit 2; }
  (cd $WT && go test $tags -vet=off -count=1 -run "^($funcs)\$" ./$dir/ >/tmp/ev_mut.$$ 2>&1); rc1=$?
  (cd $WT && git checkout -q -- . )
  res="$res demo=$name clean_rc=$rc0 mutated_rc=$rc1 suite_with_patch_rc=$rcs;"
done
echo "CONFIRM: $res"
rm -f /tmp/ev_clean.$$ /tmp/ev_suite.$$ /tmp/ev_mut.$$
# checks against the patched scratch worktree (VERIF_REPO), /repo itself is not touched
(cd $WT && git checkout -q -- . && git clean -fdq && (git apply "$D/patch.diff" || git apply -3 "$D/patch.diff")) || { echo "PATCH DOES NOT APPLY for the checks"; exit 2; }
for id in "$@"; do
  echo "=== $id"
  (cd /verif && VERIF_REPO=$WT VERIF_EVIDENCE_DIR=/tmp/ev_evi_$$ ./check "$id" ${TIER:-quick} >/tmp/ev_out.$$ 2>&1; echo "rc=$?"; grep -E "VIOLATION|KNOWN-FINDING|BROKEN|violation:" /tmp/ev_out.$$ | head -${LINES_MAX:-6}; rm -f /tmp/ev_out.$$)
done
rm -rf /tmp/ev_evi_$$
h=$(python3 -c "import hashlib;print(hashlib.sha1('$WT'.encode()).hexdigest()[:10])"); rm -rf /verif/.build_$h
