#!/usr/bin/env python3
"""Negative controls for the trace specifications other than SnapTrace (see negctl_snap.py for that one):
record a small real trace from the current /repo, check that TLC accepts it, then corrupt ONE recorded field at a
time and check that TLC rejects every corrupted trace.  Demonstrates that the specifications are bound to what
the code is observed to do (a trace spec that only counted lines would accept all of these).
usage: negctl_all.py   -> one line per control; exit 0 iff the clean traces are accepted and all corruptions rejected"""
import copy
import json
import os
import re
import sys

sys.path.insert(0, os.path.dirname(os.path.abspath(__file__)))
import vlib  # noqa: E402

BAD = []


def report(family, name, rejected, detail=""):
    ok = rejected
    if name.startswith("clean "):
        print("%-10s %-44s -> %s" % (family, name, "yes" if ok else "NO: THE UNCORRUPTED TRACE IS REJECTED"))
    else:
        print("%-10s %-44s -> %s %s" % (family, name, "rejected" if rejected else "ACCEPTED (control failed)", detail))
    if not ok:
        BAD.append((family, name))


def hwm_accepts(module, cfg, trace_name, lines, data=None):
    d = dict(data or {})
    d[trace_name] = "\n".join(lines) + "\n"
    r = vlib.run_tlc(module, cfg, workers=1, deque=True, timeout=900, want_vecs=False, data=d)
    if r.ok:
        return True, ""
    m = re.search(r'<<"HWM", (\d+), (\d+)>>', r.out)
    return False, ("stuck at event %s" % m.group(1)) if m else (r.violated or r.error or "")[:80]


def records_accept(module, cfg, trace_name, lines, data=None):
    d = dict(data or {})
    d[trace_name] = "\n".join(lines) + "\n"
    r = vlib.run_tlc(module, cfg, workers=4, timeout=900, want_vecs=False, data=d)
    return r.ok, (r.violated or r.error or "")[:60]


def pipeline(drv):
    p = vlib.run([drv, "pipe-trace", "-seed", "7", "-runs", "6", "-maxn", "12"], check=True)
    lines = [x for x in p.stdout.splitlines() if x.startswith("{")]
    cfg = "CONSTANTS N = 40  Targets = {1, 2, 3, 4, 5}\nSPECIFICATION TraceSpec\nCONSTRAINT Track\nINVARIANTS C10_Prefix C10_AtReturn C11_ReturnAfterDone\nPOSTCONDITION TraceAccepted\nCHECK_DEADLOCK FALSE\n"
    data = {"PTR.cfg": cfg}
    ok, _ = hwm_accepts("PipelineTrace", "PTR.cfg", "pipe_trace.ndjson", lines, data)
    report("pipeline", "clean trace accepted", ok)
    evs = [json.loads(x) for x in lines]

    def idx(pred, nth=0):
        c = [i for i, e in enumerate(evs) if pred(e)]
        return c[nth] if len(c) > nth else None

    def run(name, mutate):
        e2 = copy.deepcopy(evs)
        if mutate(e2) is False:
            print("pipeline   %-44s -> (not applicable to this trace)" % name)
            return
        ok, why = hwm_accepts("PipelineTrace", "PTR.cfg", "pipe_trace.ndjson", [json.dumps(x) for x in e2], data)
        report("pipeline", name, not ok, why)

    def swap_done_return(e):
        r = idx(lambda x: x["e"] == "Return")
        d = max(i for i in range(r) if e[i]["e"] == "TgtDone")
        e[d], e[r] = e[r], e[d]
    run("Return before the last TgtDone", swap_done_return)

    def retarget(e):
        i = idx(lambda x: x["e"] == "TgtRecv")
        ts = [t for t in (1, 2, 3, 4, 5) if t != e[i]["t"]]
        e[i]["t"] = ts[0]
    run("a TgtRecv attributed to another target", retarget)

    def drop_recv(e):
        del e[idx(lambda x: x["e"] == "TgtRecv", 1)]
    run("one TgtRecv removed (feature lost)", drop_recv)

    def dup_recv(e):
        i = idx(lambda x: x["e"] == "TgtRecv", 1)
        e.insert(i, copy.deepcopy(e[i]))
    run("one TgtRecv duplicated", dup_recv)

    def reorder(e):
        c = [i for i, x in enumerate(e) if x["e"] == "TgtRecv"]
        for a in c:
            for b in c:
                if b > a and e[a]["t"] == e[b]["t"] and e[a]["i"] != e[b]["i"]:
                    e[a], e[b] = e[b], e[a]
                    return
        return False
    run("two TgtRecv of one target swapped (order)", reorder)

    def tags(e):
        i = idx(lambda x: x["e"] == "TgtRecv" and x["tags"])
        if i is None:
            return False
        e[i]["tags"][0][2] = 9
    run("geometry tag of another tile matrix", tags)

    def attrs(e):
        e[idx(lambda x: x["e"] == "TgtRecv")]["attrs_ok"] = False
    run("attribute values not the original ones", attrs)

    def leaked(e):
        e[idx(lambda x: x["e"] == "Return")]["leaked"] = 1
    run("a goroutine left behind", leaked)

    def no_close(e):
        del e[idx(lambda x: x["e"] == "SrcClose")]
    run("source never closes its channel", no_close)


def paging(drv):
    d = vlib.scratch("negpaging")
    try:
        lines = []
        for p, c in ((3, 7), (2, 4)):
            r = vlib.run([drv, "gpkg-case", "-dir", d, "-p", str(p), "-count", str(c), "-seed", "5"], check=True)
            lines += [x for x in r.stdout.splitlines() if x.startswith("{")]
    finally:
        vlib.rm(d)
    ok, _ = hwm_accepts("PagingTrace", "PagingTrace.cfg", "paging_trace.ndjson", lines)
    report("paging", "clean trace accepted", ok)
    evs = [json.loads(x) for x in lines]

    def run(name, mutate):
        e2 = copy.deepcopy(evs)
        mutate(e2)
        ok, why = hwm_accepts("PagingTrace", "PagingTrace.cfg", "paging_trace.ndjson", [json.dumps(x) for x in e2])
        report("paging", name, not ok, why)
    first_done = [i for i, e in enumerate(evs) if e["e"] == "Done"][0]
    run("row count one too many after a send", lambda e: e[4].__setitem__("rows", e[4]["rows"] + 1))
    run("last row missing at the end", lambda e: e[first_done].__setitem__("rowsrc", e[first_done]["rowsrc"][:-1]))
    run("two rows swapped", lambda e: e[first_done]["rowsrc"].__setitem__(slice(0, 2), e[first_done]["rowsrc"][1::-1]))
    run("spatial index lacks an entry", lambda e: e[first_done].__setitem__("rtree", e[first_done]["rtree"][1:]))
    run("recorded extent one unit short", lambda e: e[first_done]["extent"].__setitem__(2, e[first_done]["extent"][2] - 1))
    run("column definitions differ", lambda e: e[first_done].__setitem__("columns_ok", False))
    run("page flushed one feature early", lambda e: e[2].__setitem__("rows", 2))


def records(drv):
    # Morton
    p = vlib.run([drv, "morton-trace", "-seed", "3", "-n", "20"], check=True)
    lines = [x for x in p.stdout.splitlines() if x.startswith("{")]
    consts = vlib.run([drv, "morton-consts"], check=True).stdout
    data = {"MortonConsts.tla": consts}
    ok, _ = records_accept("MortonTrace", "MortonTrace.cfg", "morton_trace.ndjson", lines, data)
    report("morton", "clean records accepted", ok)
    rec = [json.loads(x) for x in lines]
    k = [i for i, r in enumerate(rec) if r["op"] == "key" and r["ok"] and r["z"]][5]
    r2 = copy.deepcopy(rec); r2[k]["z"] = r2[k]["z"][1:]
    ok, why = records_accept("MortonTrace", "MortonTrace.cfg", "morton_trace.ndjson", [json.dumps(x) for x in r2], data)
    report("morton", "one bit of a key cleared", not ok, why)
    r2 = copy.deepcopy(rec); r2[k]["ok"] = False
    ok, why = records_accept("MortonTrace", "MortonTrace.cfg", "morton_trace.ndjson", [json.dumps(x) for x in r2], data)
    report("morton", "ok flag flipped", not ok, why)
    # Route
    p = vlib.run([drv, "route-trace", "-seed", "3", "-n", "60", "-W", "6"], check=True)
    lines = [x for x in p.stdout.splitlines() if x.startswith("{")]
    ok, _ = records_accept("RouteTrace", "RouteTrace.cfg", "route_trace.ndjson", lines)
    report("route", "clean records accepted", ok)
    rec = [json.loads(x) for x in lines]
    k = [i for i, r in enumerate(rec) if len(r["got"]) >= 3][0]
    r2 = copy.deepcopy(rec); r2[k]["got"][1], r2[k]["got"][2] = r2[k]["got"][2], r2[k]["got"][1]
    ok, why = records_accept("RouteTrace", "RouteTrace.cfg", "route_trace.ndjson", [json.dumps(x) for x in r2])
    report("route", "two routed pixels out of travel order", not ok, why)
    r2 = copy.deepcopy(rec); del r2[k]["got"][1]
    ok, why = records_accept("RouteTrace", "RouteTrace.cfg", "route_trace.ndjson", [json.dumps(x) for x in r2])
    report("route", "one routed pixel missing", not ok, why)
    # TmsQuad
    p = vlib.run([drv, "tms-quad-trace"], check=True)
    lines = [x for x in p.stdout.splitlines() if x.startswith("{")][:200]
    ok, _ = records_accept("TmsQuadTrace", "TmsQuadTrace.cfg", "tmsquad_trace.ndjson", lines)
    report("tmsquad", "clean records accepted", ok)
    rec = [json.loads(x) for x in lines]
    k = [i for i, r in enumerate(rec) if r["verdict"] == "error" and r["pert"]][0]
    r2 = copy.deepcopy(rec); r2[k]["verdict"] = "ok"
    ok, why = records_accept("TmsQuadTrace", "TmsQuadTrace.cfg", "tmsquad_trace.ndjson", [json.dumps(x) for x in r2])
    report("tmsquad", "a perturbed set reported as accepted", not ok, why)
    k = [i for i, r in enumerate(rec) if r["verdict"] == "ok"][0]
    r2 = copy.deepcopy(rec); r2[k]["pixel_err_ppb"][3] = 500000000
    ok, why = records_accept("TmsQuadTrace", "TmsQuadTrace.cfg", "tmsquad_trace.ndjson", [json.dumps(x) for x in r2])
    report("tmsquad", "pixel size off by a factor (wrong level offset)", not ok, why)
    # TileAddr
    p = vlib.run([drv, "tms-addr-trace", "-samples", "1"], check=True)
    lines = [x for x in p.stdout.splitlines() if x.startswith("{")][:300]
    ok, _ = records_accept("TileAddrTrace", "TileAddrTrace.cfg", "tileaddr_trace.ndjson", lines)
    report("tileaddr", "clean records accepted", ok)
    rec = [json.loads(x) for x in lines]
    k = [i for i, r in enumerate(rec) if r["kind"] == "inside"][3]
    r2 = copy.deepcopy(rec); r2[k]["from"] = [r2[k]["from"][0] + 1, r2[k]["from"][1]]
    ok, why = records_accept("TileAddrTrace", "TileAddrTrace.cfg", "tileaddr_trace.ndjson", [json.dumps(x) for x in r2])
    report("tileaddr", "interior point found in the neighbouring tile", not ok, why)
    k = [i for i, r in enumerate(rec) if r["kind"] == "outside"][0]
    r2 = copy.deepcopy(rec); r2[k]["from"] = [0, 0]
    ok, why = records_accept("TileAddrTrace", "TileAddrTrace.cfg", "tileaddr_trace.ndjson", [json.dumps(x) for x in r2])
    report("tileaddr", "outside point mapped to a tile", not ok, why)
    r2 = copy.deepcopy(rec); r2[k]["docid"] = r2[k]["z"] + 1
    ok, why = records_accept("TileAddrTrace", "TileAddrTrace.cfg", "tileaddr_trace.ndjson", [json.dumps(x) for x in r2])
    report("tileaddr", "tile Z answered with the matrix of another id", not ok, why)
    # TmsJson
    vec = [{"muts": [], "class": ""}, {"muts": [{"w": "mid", "f": "tileWidth", "op": "zero"}], "class": ""},
           {"muts": [{"w": "doc", "f": "title", "op": "delete"}], "class": ""}]
    p = vlib.run([drv, "json-replay"], input="\n".join(json.dumps(x) for x in vec) + "\n", check=True)
    lines = [x for x in p.stdout.splitlines() if x.startswith("{")]
    ok, _ = records_accept("TmsJsonTrace", "TmsJsonTrace.cfg", "tmsjson_trace.ndjson", lines)
    report("tmsjson", "clean records accepted", ok)
    rec = [json.loads(x) for x in lines]
    k = [i for i, r in enumerate(rec) if r["muts"] and r["muts"][0]["op"] == "zero"][0]
    r2 = copy.deepcopy(rec); r2[k]["outcome"] = "ok"; r2[k]["rt_equal"] = True; r2[k]["rt_stable"] = True
    ok, why = records_accept("TmsJsonTrace", "TmsJsonTrace.cfg", "tmsjson_trace.ndjson", [json.dumps(x) for x in r2])
    report("tmsjson", "zero tile width accepted", not ok, why)
    k = [i for i, r in enumerate(rec) if r["outcome"] == "ok" and r["muts"]][0]
    r2 = copy.deepcopy(rec); r2[k]["rt_stable"] = False
    ok, why = records_accept("TmsJsonTrace", "TmsJsonTrace.cfg", "tmsjson_trace.ndjson", [json.dumps(x) for x in r2])
    report("tmsjson", "second encoding differs", not ok, why)
    k = [i for i, r in enumerate(rec) if not r["muts"]][0]
    r2 = copy.deepcopy(rec); r2[k]["orig_equal"] = False
    ok, why = records_accept("TmsJsonTrace", "TmsJsonTrace.cfg", "tmsjson_trace.ndjson", [json.dumps(x) for x in r2])
    report("tmsjson", "re-encoded built-in differs from its source", not ok, why)
    # Kmp
    vec = [{"corpus": [0, 1, 0, 1, 1, 0, 1], "find": [0, 1]}, {"corpus": [0, 1, 1, 0, 1, 0, 1, 1], "find": [0, 1, 1, 0, 1, 1]},
           {"corpus": [2, 2, 2], "find": [1]}]
    p = vlib.run([drv, "kmp-run"], input="\n".join(json.dumps(x) for x in vec) + "\n", check=True)
    lines = [x for x in p.stdout.splitlines() if x.startswith("{")]
    ok, _ = records_accept("KmpTrace", "KmpTrace.cfg", "kmp_trace.ndjson", lines)
    report("kmp", "clean records accepted", ok)
    rec = [json.loads(x) for x in lines]
    r2 = copy.deepcopy(rec); r2[0]["got"] = r2[0]["got"][:-1]
    ok, why = records_accept("KmpTrace", "KmpTrace.cfg", "kmp_trace.ndjson", [json.dumps(x) for x in r2])
    report("kmp", "last occurrence not reported", not ok, why)
    r2 = copy.deepcopy(rec); r2[1]["got"] = [1]
    ok, why = records_accept("KmpTrace", "KmpTrace.cfg", "kmp_trace.ndjson", [json.dumps(x) for x in r2])
    report("kmp", "a false match other than the modelled one", not ok, why)
    r2 = copy.deepcopy(rec); r2[2]["out"] = "panic: runtime error: index out of range"
    ok, why = records_accept("KmpTrace", "KmpTrace.cfg", "kmp_trace.ndjson", [json.dumps(x) for x in r2])
    report("kmp", "recorded panic", not ok, why)
    # Assemble
    box = lambda x0, y0, x1, y1: [[x0, y0], [x1, y0], [x1, y1], [x0, y1]]
    vec = [{"os": [box(0, 0, 4, 4)], "is": [list(reversed(box(1, 1, 3, 3)))]},
           {"os": [box(0, 0, 4, 4), box(0, 0, 2, 2)], "is": [list(reversed(box(1, 1, 2, 2)))]},
           {"os": [box(0, 0, 2, 2)], "is": [list(reversed(box(0, 0, 2, 2)))]}]
    p = vlib.run([drv, "assemble-replay"], input="\n".join(json.dumps(x) for x in vec) + "\n", check=True)
    lines = [x for x in p.stdout.splitlines() if x.startswith("{")]
    ok, _ = records_accept("AssembleTrace", "AssembleTrace.cfg", "assemble_trace.ndjson", lines)
    report("assemble", "clean records accepted", ok)
    rec = [json.loads(x) for x in lines]
    r2 = copy.deepcopy(rec); r2[1]["got"][0].append(r2[1]["got"][1].pop())      # the hole moved to the larger shell
    ok, why = records_accept("AssembleTrace", "AssembleTrace.cfg", "assemble_trace.ndjson", [json.dumps(x) for x in r2])
    report("assemble", "hole attached to the other (larger) shell", not ok, why)
    r2 = copy.deepcopy(rec); r2[0]["got"] = [[r2[0]["got"][0][0]]]                    # the hole dropped: filled
    ok, why = records_accept("AssembleTrace", "AssembleTrace.cfg", "assemble_trace.ndjson", [json.dumps(x) for x in r2])
    report("assemble", "hole dropped", not ok, why)
    # SplitRing
    vec = [{"ring": [0, 1, 2, 0, 3], "hm": [0]}, {"ring": [0, 1, 2], "hm": []}, {"ring": [0, 1, 2, 0, 4, 3], "hm": [0]}]
    p = vlib.run([drv, "split-replay"], input="\n".join(json.dumps(x) for x in vec) + "\n", check=True)
    lines = [x for x in p.stdout.splitlines() if x.startswith("{")]
    ok, _ = records_accept("SplitRingTrace", "SplitRingTrace.cfg", "split_trace.ndjson", lines)
    report("splitring", "clean records accepted", ok)
    rec = [json.loads(x) for x in lines]
    k = [i for i, r in enumerate(rec) if len(r["o"]) >= 1 and len(r["i"]) >= 1][0]
    r2 = copy.deepcopy(rec); r2[k]["o"], r2[k]["i"] = r2[k]["i"], r2[k]["o"]
    ok, why = records_accept("SplitRingTrace", "SplitRingTrace.cfg", "split_trace.ndjson", [json.dumps(x) for x in r2])
    report("splitring", "outer and inner loops exchanged", not ok, why)
    r2 = copy.deepcopy(rec); r2[0]["o"] = [r2[0]["ring"]]; r2[0]["i"] = []; r2[0]["p"] = []
    ok, why = records_accept("SplitRingTrace", "SplitRingTrace.cfg", "split_trace.ndjson", [json.dumps(x) for x in r2])
    report("splitring", "ring returned unsplit", not ok, why)
    r2 = copy.deepcopy(rec); r2[1]["out"] = "panic: partial rings remaining on stack"
    ok, why = records_accept("SplitRingTrace", "SplitRingTrace.cfg", "split_trace.ndjson", [json.dumps(x) for x in r2])
    report("splitring", "recorded panic", not ok, why)
    # Dedupe
    vec = [{"ring": [0, 1, 2, 1, 3]}, {"ring": [0, 1, 0, 1, 0, 2, 3]}, {"ring": [0, 1, 2, 3]}]
    p = vlib.run([drv, "kmp-run"], input="\n".join(json.dumps(x) for x in vec) + "\n", check=True)
    lines = [x for x in p.stdout.splitlines() if x.startswith("{")]
    ok, _ = records_accept("DedupeTrace", "DedupeTrace.cfg", "dedupe_trace.ndjson", lines)
    report("dedupe", "clean records accepted", ok)
    rec = [json.loads(x) for x in lines]
    r2 = copy.deepcopy(rec); r2[1]["got"] = r2[1]["ring"]
    ok, why = records_accept("DedupeTrace", "DedupeTrace.cfg", "dedupe_trace.ndjson", [json.dumps(x) for x in r2])
    report("dedupe", "zig-zag not removed", not ok, why)
    r2 = copy.deepcopy(rec); r2[2]["got"] = [0, 2, 1, 3]
    ok, why = records_accept("DedupeTrace", "DedupeTrace.cfg", "dedupe_trace.ndjson", [json.dumps(x) for x in r2])
    report("dedupe", "vertices exchanged (adjacency invented)", not ok, why)


def main():
    drv = vlib.build_harness()
    pipeline(drv)
    paging(drv)
    records(drv)
    print("%d control(s) failed" % len(BAD))
    return 1 if BAD else 0


if __name__ == "__main__":
    try:
        sys.exit(main())
    except vlib.Broken as e:
        print("BROKEN:", e)
        sys.exit(2)
