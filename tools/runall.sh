#!/bin/sh
# tools/runall.sh [tier] [seed...] : run every registered check (or those in $ONLY), print rc and wall time per check
cd "$(dirname "$0")/.." || exit 2
TIER=${1:-quick}; shift
SEEDS=${*:-1}
for s in $SEEDS; do
  for id in ${ONLY:-$(python3 -c "import json;print(' '.join(c['property_id'] for c in json.load(open('MANIFEST.json'))['checks']))")}; do
    t0=$(date +%s)
    out=$(VERIF_SEED=$s ./check $id $TIER 2>&1); rc=$?
    t1=$(date +%s)
    echo "seed=$s $id rc=$rc $((t1-t0))s $(echo "$out" | grep -c KNOWN-FINDING) known $(echo "$out" | grep -E 'VIOLATION|BROKEN' | head -2 | cut -c1-200)"
  done
done
